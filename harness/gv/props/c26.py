"""C26 Temporary row ids resolve consistently within a bundle.

Two tables whose Ref/RefList columns point at each other and at themselves; one bundle of 2-6 user actions
mixing adds with negative ids, updates/removals addressed by negative id and reference values using them.
The bundle is interpreted by an independent model that only uses the ids reported in retValues.
"""
import copy
from hypothesis import strategies as st
from ..runner import Outcome
from ..doc import Doc
from .. import eqv
from ..wchoice import weighted

ID = 'C26'
LEVEL = 'exploration'
TECHNIQUE = 'property-based testing against a reference interpretation of the bundle (model tables)'
RULE = ('case = two tables Tab1/Tab2, each with Text A, Ref:Tab1, Ref:Tab2, RefList:Tab1, RefList:Tab2 columns and 0..4 existing '
        'rows holding references, plus ONE bundle of 2..6 actions: AddRecord/BulkAddRecord with None or negative ids (pool '
        '-1..-4, reused across actions and tables), UpdateRecord/BulkUpdateRecord and RemoveRecord/BulkRemoveRecord addressed by '
        'temp id or existing id, reference values = temp id (of an earlier action, of the same action, of the other table), '
        'existing id, 0, lists of those, and - as labelled classes - negative reference values nobody created (also ones '
        'created only in the other table or only later) and unknown negative row ids. Selectors are resolved against an '
        'abstract state, so updates/removals never address a row already removed. Non-trivial = a later action or a reference '
        'value uses a temp id; distinct by hash of the concrete bundle + initial data.')
ORACLE = ('reference interpretation: walking the bundle, each negative id given to an add is mapped (per table, latest wins) to '
          'the real id reported in retValues; updates/removals addressed by a negative id and Ref/RefList values are translated '
          'with that map and applied to model tables (removal also clears references to the removed row, RefList -> None when '
          'empty); final row ids and cells of both tables must equal the model. A negative reference value that no earlier or '
          'same action created in the target table => the bundle must raise and the whole-document snapshot must be unchanged.')
ASSUMPTIONS = ['an Update/Remove addressed to a negative row id nobody created is outside the statement: accepted outcomes are '
               'rejection without trace, or success with no effect from that action',
               'a negative reference value created only by a LATER action of the bundle counts as not created (actions apply in '
               'order): rejection without trace is required if the bundle is rejected, acceptance is not judged',
               'negative ids inside one BulkAddRecord are distinct (which of two equal placeholders a reference means is undefined)',
               'clean-up of references to rows removed inside the bundle follows the documented C10 behaviour (Ref -> 0, RefList '
               'without the id, None when empty); no two-way reference columns',
               'updates/removals never address a row that was removed earlier in the bundle or an unknown positive id']
BUDGET = {'quick': dict(examples=3000, shards=12, max_seconds=32),
          'thorough': dict(examples=27000, shards=16, max_seconds=1800)}
SHRINK_BUDGET = {'quick': 120, 'thorough': 400}

TABLES = ['Tab1', 'Tab2']
REFCOLS = [('R1', 'Ref', 0), ('R2', 'Ref', 1), ('L1', 'RefList', 0), ('L2', 'RefList', 1)]
COLINFO = {c: (kind, tgt) for c, kind, tgt in REFCOLS}
DATACOLS = ['A', 'R1', 'R2', 'L1', 'L2']


# ---------------------------------------------------------------------------
# generator

def _refspec(unknown_weight):
  pair = lambda kind: st.tuples(st.just(kind), st.integers(0, 5)).map(list)
  known = weighted((5, pair('tmp')), (2, pair('pos')), (1, st.just(['zero'])))
  if unknown_weight:
    return weighted((2 * unknown_weight, known), (1, pair('unk')), (1, pair('fwd')))
  return known


def _values(uw):
  ref = _refspec(uw)
  lst = st.lists(ref, min_size=0, max_size=3)
  return st.fixed_dictionaries({}, optional={'R1': ref, 'R2': ref, 'L1': lst, 'L2': lst})


def _bundle(uw, rw):
  """uw: how rare an unknown reference value is (0 = never); rw: same for unknown row ids."""
  pair = lambda kind: st.tuples(st.just(kind), st.integers(0, 5)).map(list)
  idspec = weighted((1, st.none()), (1, st.integers(-4, -1)), (2, st.integers(-2, -1)))
  rowspec = weighted((3, pair('tmp')), (1, pair('pos')))
  if rw:
    rowspec = weighted((rw, rowspec), (1, pair('unk')))
  vals = _values(uw)
  t = st.integers(0, 1)
  add = st.fixed_dictionaries({'k': st.just('add'), 't': t, 'single': st.booleans(),
                               'rows': st.lists(st.fixed_dictionaries({'id': idspec, 'v': vals}), min_size=1, max_size=3)})
  upd = st.fixed_dictionaries({'k': st.just('upd'), 't': t, 'single': st.booleans(),
                               'rows': st.lists(st.fixed_dictionaries({'row': rowspec, 'v': vals}), min_size=1, max_size=3)})
  rem = st.fixed_dictionaries({'k': st.just('rem'), 't': t, 'single': st.booleans(),
                               'rows': st.lists(rowspec, min_size=1, max_size=2)})
  negid = st.integers(-4, -1)
  first = st.fixed_dictionaries({'k': st.just('add'), 't': t, 'single': st.booleans(),
                                 'rows': st.lists(st.fixed_dictionaries({'id': negid, 'v': vals}), min_size=1, max_size=3)})
  action = weighted((3, add), (2, upd), (1, rem))
  rest = weighted((1, st.lists(action, min_size=1, max_size=2)), (2, st.lists(action, min_size=3, max_size=5)))
  # two thirds of the bundles open with an add that creates temp ids, so that later actions have something to use
  return weighted((2, st.tuples(first, rest).map(lambda p: [p[0]] + p[1])), (1, st.lists(action, min_size=2, max_size=6)))


def strategy(tier):
  init = st.lists(st.integers(0, 4), min_size=0, max_size=12)
  def case(uw, rw):
    return st.fixed_dictionaries({'rows': st.tuples(st.integers(0, 4), st.integers(0, 4)).map(list), 'init': init,
                                  'bundle': _bundle(uw, rw)})
  # most bundles are fully resolvable (deep part of the space); some carry unknown reference values / row ids
  return weighted((5, case(0, 0)), (1, case(12, 0)), (1, case(0, 3)), (1, case(20, 12)))


# ---------------------------------------------------------------------------
# case -> concrete bundle (abstract resolution; no real ids of new rows are needed)

def _int(x, d=0):
  return x if isinstance(x, int) and not isinstance(x, bool) else d


def _spec(x):
  if isinstance(x, list) and x and x[0] in ('tmp', 'pos', 'unk', 'fwd', 'zero'):
    return x[0], abs(_int(x[1])) if len(x) > 1 else 0
  return 'zero', 0


def build_initial(case):
  rows = case.get('rows') or [0, 0]
  n = [abs(_int(rows[i] if i < len(rows) else 0)) % 5 for i in range(2)]
  init = [abs(_int(x)) for x in (case.get('init') or [])] or [0]
  pos = [0]
  def nxt(limit):
    v = init[pos[0] % len(init)]; pos[0] += 1
    return v if v <= limit else 0
  uas = []
  for ti, t in enumerate(TABLES):
    if not n[ti]:
      continue
    cols = {'A': ['%s_%d' % (t[-1], i + 1) for i in range(n[ti])]}
    for c, kind, tgt in REFCOLS:
      if kind == 'Ref':
        cols[c] = [nxt(n[tgt]) for _ in range(n[ti])]
      else:
        vals = []
        for _ in range(n[ti]):
          lst = [x for x in (nxt(n[tgt]), nxt(n[tgt])) if x]
          vals.append(['L'] + lst if lst else None)
        cols[c] = vals
    uas.append(['BulkAddRecord', t, [None] * n[ti], cols])
  return n, uas


class Abstract(object):
  """What can be known about the bundle before it runs: which temp ids each table's map holds, which rows are alive."""
  def __init__(self, n):
    self.known = [[], []]                       # negative ids mapped so far, per table (insertion order)
    self.alive_tmp = [set(), set()]
    self.alive_pos = [set(range(1, n[0] + 1)), set(range(1, n[1] + 1))]
    self.initial = [list(range(1, n[0] + 1)), list(range(1, n[1] + 1))]

  def unknown_id(self, t, k):
    v = -(k % 6 + 1)
    while v in self.known[t]:
      v -= 1
    return v


def add_ids(a):
  """Normalised id list of an abstract add action (None or a negative id per row, negatives distinct)."""
  rows = [r for r in (a.get('rows') or [])[:4] if isinstance(r, dict)]
  if a.get('single'):
    rows = rows[:1]
  ids = []
  for r in rows:
    i = r.get('id')
    i = (-(abs(_int(i)) % 5) or None) if i is not None else None
    if i is not None and i in ids:
      i = None
    ids.append(i)
  return rows, ids


def resolve_bundle(case, n):
  ab = Abstract(n)
  uas = []
  info = []      # per concrete action: dict(kind, t, ids/rows, uses...)
  labels = set()
  unknown_refs = []   # (action index, target table, id)
  unknown_rows = 0
  uses_temp = False

  def ref_value(spec, tgt, here_new):
    kind, arg = _spec(spec)
    nonlocal uses_temp
    if kind == 'tmp':
      if not ab.known[tgt]:
        return 0
      v = ab.known[tgt][arg % len(ab.known[tgt])]
      uses_temp = True
      labels.add('use:same-action-temp' if (tgt, v) in here_new else 'use:earlier-action-temp')
      if v not in ab.alive_tmp[tgt]:
        labels.add('use:temp-of-removed-row')
      return v
    if kind == 'pos':
      return ab.initial[tgt][arg % len(ab.initial[tgt])] if ab.initial[tgt] else 0
    if kind == 'fwd':
      # an id that only a LATER add of the bundle creates in the target table (else: an unknown id)
      later = [i for (aj, tj, ids) in future if aj > cur[0] and tj == tgt for i in ids
               if i is not None and i not in ab.known[tgt]]
      kind = 'unk'
      if later:
        v = later[arg % len(later)]
        unknown_refs.append((len(uas), tgt, v))
        return v
    if kind == 'unk':
      v = ab.unknown_id(tgt, arg)
      unknown_refs.append((len(uas), tgt, v))
      if v in ab.known[1 - tgt]:
        labels.add('unknown-ref:id-exists-in-other-table')
      return v
    return 0

  def cell_values(v, ti, here_new):
    res = {}
    v = v if isinstance(v, dict) else {}
    for c, kind, tgt in REFCOLS:
      if c not in v:
        continue
      if kind == 'Ref':
        res[c] = ref_value(v[c], tgt, here_new)
        if res[c] < 0:
          labels.add('value:Ref-negative')
          if tgt != ti:
            labels.add('use:cross-table')
      else:
        items = [ref_value(s, tgt, here_new) for s in (v[c] if isinstance(v[c], list) else [])[:4]]
        items = [x for x in items if x]
        res[c] = ['L'] + items if items else None
        if any(x < 0 for x in items):
          labels.add('value:RefList-negative')
          if tgt != ti:
            labels.add('use:cross-table')
        if any(x < 0 for x in items) and any(x > 0 for x in items):
          labels.add('value:RefList-mixed')
    return res

  def row_id(spec, ti):
    nonlocal uses_temp, unknown_rows
    kind, arg = _spec(spec)
    if kind == 'unk':
      unknown_rows += 1
      return ab.unknown_id(ti, arg), True
    if kind == 'tmp' and ab.alive_tmp[ti]:
      cand = sorted(ab.alive_tmp[ti], reverse=True)
      uses_temp = True
      return cand[arg % len(cand)], False
    cand = sorted(ab.alive_pos[ti])
    if cand:
      return cand[arg % len(cand)], False
    return None, False

  bundle = [a for a in (case.get('bundle') or []) if isinstance(a, dict)][:8]
  future = [(aj, abs(_int(a.get('t'))) % 2, add_ids(a)[1]) for aj, a in enumerate(bundle) if a.get('k') == 'add']
  cur = [0]
  for ai, a in enumerate(bundle):
    cur[0] = ai
    ti = abs(_int(a.get('t'))) % 2
    t = TABLES[ti]
    k = a.get('k')
    rows = [r for r in (a.get('rows') or [])][:4]
    single = bool(a.get('single'))
    if k == 'add':
      rows, ids = add_ids(a)
      if not rows:
        continue
      here_new = set()
      for i in ids:
        if i is not None:
          if i in ab.known[ti]:
            labels.add('reuse:temp-id-overridden')
            ab.known[ti].remove(i)
          if i in ab.known[1 - ti]:
            labels.add('reuse:same-negative-in-both-tables')
          ab.known[ti].append(i)
          ab.alive_tmp[ti].add(i)
          here_new.add((ti, i))
      vals = [cell_values(r.get('v'), ti, here_new) for r in rows]
      labels_a = ['a%d_%d' % (ai, j) for j in range(len(rows))]
      if single:
        uas.append(['AddRecord', t, ids[0], dict(vals[0], A=labels_a[0], **({'E': 'e%d' % ai} if ai % 3 == 1 else {}))])
      else:
        cols = sorted(set(c for v in vals for c in v))
        cv = {'A': labels_a}
        for c in cols:
          cv[c] = [v.get(c, 0 if COLINFO[c][0] == 'Ref' else None) for v in vals]
        uas.append(['BulkAddRecord', t, ids, cv])
      info.append({'k': 'add', 't': ti})
    elif k == 'upd':
      rows = [r for r in rows if isinstance(r, dict)]
      resolved = []
      for r in rows:
        rid, unk = row_id(r.get('row'), ti)
        if rid is None or any(rid == x[0] for x in resolved):
          continue
        resolved.append((rid, unk, r.get('v')))
      unk_rows = [x for x in resolved if x[1]]
      if unk_rows:
        resolved = unk_rows[:1]           # an unknown row id gets an action of its own
      elif single:
        resolved = resolved[:1]
      if not resolved:
        continue
      vals = [cell_values(v, ti, set()) for (_, _, v) in resolved]
      if any(x[0] < 0 and not x[1] for x in resolved):
        labels.add('use:update-by-temp-id')
      if len(resolved) == 1 and (single or unk_rows):
        uas.append(['UpdateRecord', t, resolved[0][0], dict(vals[0], A='u%d' % ai, **({'E': 'e%d' % ai} if ai % 3 == 2 else {}))])
      else:
        cols = sorted(set(c for v in vals for c in v))
        cv = {'A': ['u%d_%d' % (ai, j) for j in range(len(resolved))]}
        for c in cols:
          cv[c] = [v.get(c, 0 if COLINFO[c][0] == 'Ref' else None) for v in vals]
        uas.append(['BulkUpdateRecord', t, [x[0] for x in resolved], cv])
      info.append({'k': 'upd', 't': ti, 'unknown_row': bool(unk_rows)})
    elif k == 'rem':
      resolved = []
      for r in rows:
        rid, unk = row_id(r, ti)
        if rid is None or any(rid == x[0] for x in resolved):
          continue
        resolved.append((rid, unk))
      unk_rows = [x for x in resolved if x[1]]
      if unk_rows:
        resolved = unk_rows[:1]
      elif single:
        resolved = resolved[:1]
      if not resolved:
        continue
      for rid, unk in resolved:
        if unk:
          continue
        if rid < 0:
          labels.add('use:remove-by-temp-id')
          ab.alive_tmp[ti].discard(rid)
        else:
          ab.alive_pos[ti].discard(rid)
      if len(resolved) == 1 and (single or unk_rows):
        uas.append(['RemoveRecord', t, resolved[0][0]])
      else:
        uas.append(['BulkRemoveRecord', t, [x[0] for x in resolved]])
      info.append({'k': 'rem', 't': ti, 'unknown_row': bool(unk_rows)})
  return uas, info, labels, unknown_refs, unknown_rows, uses_temp


# ---------------------------------------------------------------------------
# reference interpretation

def model_from_doc(d):
  m = []
  for t in TABLES:
    rep = d.fetch_repr(t)
    ids, cols = rep[2], rep[3]
    m.append({r: {c: copy.deepcopy(cols[c][i]) for c in DATACOLS} for i, r in enumerate(ids)})
  return m


def interpret(uas, rets, model):
  """Apply the bundle to `model` (list of {row: {col: value}}), using only retValues for new ids.
  Returns the list of real ids each temp id stood for (for the report)."""
  tmap = [{}, {}]
  trace = []

  def tr_ref(tgt, v):
    return tmap[tgt].get(v, v) if isinstance(v, int) and v < 0 else v

  def tr_cell(col, v):
    kind, tgt = COLINFO[col]
    if kind == 'Ref':
      return tr_ref(tgt, v)
    if isinstance(v, list):
      items = [tr_ref(tgt, x) for x in v[1:]]
      return ['L'] + items if items else None
    return v

  for ua, ret in zip(uas, rets):
    name, t = ua[0], ua[1]
    ti = TABLES.index(t)
    if name in ('AddRecord', 'BulkAddRecord'):
      if name == 'AddRecord':
        ids, real = [ua[2]], [ret]
        rows = [ua[3]]
      else:
        ids, real = ua[2], list(ret) if isinstance(ret, list) else []
        rows = [{c: ua[3][c][j] for c in ua[3]} for j in range(len(ids))]
      if len(real) != len(ids) or any(not isinstance(x, int) or isinstance(x, bool) or x <= 0 for x in real):
        return 'retValues %r do not give one positive id per added row of %r' % (ret, ua)
      for i, rid in zip(ids, real):
        if i is not None and i < 0:
          tmap[ti][i] = rid
          trace.append([t, i, rid])
      for rid, row in zip(real, rows):
        rec = {'A': '', 'R1': 0, 'R2': 0, 'L1': None, 'L2': None}
        for c, v in row.items():
          rec[c] = tr_cell(c, v) if c in COLINFO else v
        model[ti][rid] = rec
    elif name in ('UpdateRecord', 'BulkUpdateRecord'):
      if name == 'UpdateRecord':
        ids, rows = [ua[2]], [ua[3]]
      else:
        ids = ua[2]
        rows = [{c: ua[3][c][j] for c in ua[3]} for j in range(len(ids))]
      for i, row in zip(ids, rows):
        rid = tmap[ti].get(i, i) if i < 0 else i
        if rid not in model[ti]:
          continue                  # unknown negative row id: no effect
        for c, v in row.items():
          model[ti][rid][c] = tr_cell(c, v) if c in COLINFO else v
    else:
      ids = [ua[2]] if name == 'RemoveRecord' else ua[2]
      gone = set()
      for i in ids:
        rid = tmap[ti].get(i, i) if i < 0 else i
        if rid in model[ti]:
          del model[ti][rid]
          gone.add(rid)
      for tab in model:
        for rec in tab.values():
          for c, kind, tgt in REFCOLS:
            if tgt != ti:
              continue
            v = rec[c]
            if kind == 'Ref':
              if isinstance(v, int) and v in gone:
                rec[c] = 0
            elif isinstance(v, list) and any(x in gone for x in v[1:]):
              items = [x for x in v[1:] if x not in gone]
              rec[c] = ['L'] + items if items else None
  return trace


def compare(model, d):
  diffs = []
  for ti, t in enumerate(TABLES):
    view = d.view(t)
    if sorted(view['id']) != sorted(model[ti]):
      diffs.append([t, 'row ids', sorted(model[ti]), sorted(view['id'])])
      continue
    for c in DATACOLS:
      for r in sorted(model[ti]):
        exp = eqv.canon(model[ti][r][c])
        if view[c][r] != exp:
          diffs.append([t, c, r, {'expected': exp, 'engine': view[c][r]}])
  return diffs


def make_doc():
  d = Doc()
  c = lambda k, t: {'id': k, 'type': t, 'isFormula': False}
  r = d.apply([
    ['AddTable', 'Tab1', [c('A', 'Text'), c('R1', 'Ref:Tab1'), c('L1', 'RefList:Tab1')]],
    ['AddTable', 'Tab2', [c('A', 'Text'), c('R1', 'Ref:Tab1'), c('R2', 'Ref:Tab2'), c('L1', 'RefList:Tab1'),
                          c('L2', 'RefList:Tab2')]],
    ['AddColumn', 'Tab1', 'R2', c('R2', 'Ref:Tab2')], ['AddColumn', 'Tab1', 'L2', c('L2', 'RefList:Tab2')],
    # a blank column in each table (as the client's "add column" creates them): the first value written into it
    # turns it into a data column in the middle of the bundle. Its cells are not part of the comparison.
    ['AddColumn', 'Tab1', 'E', {'type': 'Any', 'isFormula': True, 'formula': ''}],
    ['AddColumn', 'Tab2', 'E', {'type': 'Any', 'isFormula': True, 'formula': ''}]])
  if not r.ok:
    raise RuntimeError('setup failed: %r' % (r.error,))
  return d


def run_case(case):
  out = Outcome()
  d = make_doc()
  skip = len(d.log)
  if 'concrete' in case:
    init_uas = case['concrete'].get('init') or []
    uas = case['concrete']['bundle']
    n = None
  else:
    n, init_uas = build_initial(case)
  if init_uas:
    r = d.apply(init_uas)
    if not r.ok:
      raise RuntimeError('initial data failed: %r' % (r.error,))
  if n is None:
    # replay of a concrete bundle: derive the abstract facts from the actions themselves
    labels, info = set(['concrete']), [{} for _ in uas]
    known = [set(), set()]
    unknown_refs, unknown_rows, uses_temp = [], 0, False
    for ai, ua in enumerate(uas):
      ti = TABLES.index(ua[1])
      if ua[0] in ('AddRecord', 'BulkAddRecord'):
        ids = [ua[2]] if ua[0] == 'AddRecord' else ua[2]
        known[ti].update(i for i in ids if i is not None and i < 0)
      elif ua[0] in ('RemoveRecord', 'BulkRemoveRecord', 'UpdateRecord', 'BulkUpdateRecord'):
        ids = [ua[2]] if not ua[0].startswith('Bulk') else ua[2]
        for i in ids:
          if i < 0 and i not in known[ti]:
            unknown_rows += 1
          elif i < 0:
            uses_temp = True
      if ua[0] in ('AddRecord', 'UpdateRecord', 'BulkAddRecord', 'BulkUpdateRecord'):
        cv = ua[3]
        for c in cv:
          if c not in COLINFO:
            continue
          cells = cv[c] if ua[0].startswith('Bulk') else [cv[c]]
          for v in cells:
            for x in (v[1:] if isinstance(v, list) else [v]):
              if isinstance(x, int) and x < 0:
                if x in known[COLINFO[c][1]]:
                  uses_temp = True
                else:
                  unknown_refs.append((ai, COLINFO[c][1], x))
  else:
    uas, info, labels, unknown_refs, unknown_rows, uses_temp = resolve_bundle(case, n)
  if len(uas) < 1:
    out['skipped'] = True
    return out
  # is an "unknown" reference id created by a later add of the bundle (forward reference)?
  forward, hard_unknown = [], []
  for (ai, tgt, v) in unknown_refs:
    later = False
    for ua in uas[ai + 1:]:
      if ua[0] in ('AddRecord', 'BulkAddRecord') and ua[1] == TABLES[tgt]:
        ids = [ua[2]] if ua[0] == 'AddRecord' else ua[2]
        later = later or v in ids
    (forward if later else hard_unknown).append((ai, tgt, v))

  model = model_from_doc(d)
  before = d.snapshot()
  reply = d.apply(uas)
  after = d.snapshot()
  out['concrete'] = {'init': init_uas, 'bundle': uas}
  out['key'] = eqv.digest(out['concrete'])
  out.cls(*sorted(labels))
  out.cls('actions=%d' % len(uas))
  detail = {'bundle': uas, 'init': init_uas, 'error': None if reply.ok else repr(reply.error),
            'retValues': reply.ret if reply.ok else None}

  if hard_unknown:
    out.cls('unknown-ref')
    out['nontrivial'] = uses_temp
    ai, tgt, v = hard_unknown[0]
    if reply.ok:
      return out.fail('C26:unknown-temp-ref-accepted',
                      'action %d stores reference value %d towards %s, which no action of the bundle created there, '
                      'yet the bundle was accepted' % (ai, v, TABLES[tgt]), detail)
    if before != after:
      return out.fail('C26:rejected-bundle-left-trace', 'bundle rejected (%r) but the document changed' % (reply.error,),
                      dict(detail, diff=eqv.diff(before, after)))
    return out
  if forward:
    out.cls('unknown-ref:created-only-later')
    if not reply.ok:
      if before != after:
        return out.fail('C26:rejected-bundle-left-trace', 'bundle rejected (%r) but the document changed' % (reply.error,),
                        dict(detail, diff=eqv.diff(before, after)))
      return out
    out.cls('unknown-ref:created-only-later:accepted(not judged)')
    return out
  if unknown_rows:
    out.cls('unknown-row-id')
    if not reply.ok:
      out.cls('unknown-row-id:rejected')
      if before != after:
        return out.fail('C26:rejected-bundle-left-trace', 'bundle rejected (%r) but the document changed' % (reply.error,),
                        dict(detail, diff=eqv.diff(before, after)))
      return out
    out.cls('unknown-row-id:accepted')
  if not reply.ok:
    return out.fail('C26:resolvable-bundle-rejected',
                    'every negative id in the bundle was created by an earlier or the same action, yet it raised %r' % (
                      reply.error,), detail)
  err = interpret(uas, reply.ret, model)
  if isinstance(err, str):
    return out.fail('C26:retvalues-malformed', err, detail)
  diffs = compare(model, d)
  out['nontrivial'] = uses_temp
  if uses_temp:
    out.cls('uses-temp-id')
  if diffs:
    detail['temp ids (table, temp, real)'] = err
    detail['diffs'] = diffs[:6]
    what = diffs[0]
    if unknown_rows:
      sig = 'C26:unknown-negative-row-id-had-effect'
    elif what[1] == 'row ids':
      sig = 'C26:temp-row-id-acts-on-wrong-row'
    elif what[1] in COLINFO:
      sig = 'C26:temp-ref-points-to-wrong-row:' + COLINFO[what[1]][0]
    else:
      sig = 'C26:temp-row-id-acts-on-wrong-row'
    return out.fail(sig, 'after the bundle the tables differ from the reference interpretation: %s' % (eqv.jdump(what),), detail)
  return out
