"""C10 Removing rows leaves no references to them (model over before/after of removal bundles)."""
from hypothesis import strategies as st
from ..runner import Outcome
from .. import ops as O, eqv
from ..hist import HistoryRun, bundle_sig
from ..invariants import meta_ref_columns

ID = 'C10'
LEVEL = 'exploration'
TECHNIQUE = 'stateful property-based testing against a reference model of reference clean-up'
RULE = ('case = build history (prelude with Ref/RefList columns incl. self references, two-way pairs; general profile) '
        'followed by bundles made only of removal operations (records, tables, columns, views, sections, metadata '
        'records). For each removal bundle the set of removed rows per table is computed from before/after row ids. '
        'Non-trivial = at least one surviving Ref/RefList data cell referenced a removed row before the bundle; '
        'distinct by hash of concrete user actions.')
ORACLE = ('for every data (non-formula) Ref/RefList cell, in user and metadata tables, whose column targets table T after the '
          'bundle: it contains no id of removed(T); a user-table RefList cell that referenced removed rows equals its '
          'previous value with removed(T) filtered out (order kept, None when empty)')
ASSUMPTIONS = ['removal bundles contain only removal operations, so the expected value of a reference cell is its '
               'previous value minus removed rows', 'summary-table group-by reference columns mirror their source and '
               'are compared like any other data cell only when the summary row survives with the same id']
BUDGET = {'quick': dict(examples=1100, shards=16, max_seconds=75),
          'thorough': dict(examples=3500, shards=16, max_seconds=1800)}
SHRINK_BUDGET = {'quick': 60, 'thorough': 400}

REMOVAL_KINDS = {'remove': 10, 'rmtable': 3, 'rmcol': 2, 'rmview': 1, 'rmsection': 1, 'meta_rmcol': 1,
                 'meta_rmtable': 1, 'meta_rmfield': 1}
O.PROFILES['removal'] = REMOVAL_KINDS
O.PROFILES['refs'] = dict(O.PROFILES['general'], addref=16, reverse=5, add=16, update=24, summary=5, rencol=1, rentable=1,
                          meta_col=1, modformula=1, addfcol=2)


def strategy(tier):
  return st.fixed_dictionaries({'h': O.history('refs', 3, 12),
                                'removals': st.lists(O.bundle('removal', 2), min_size=1, max_size=5)})


def ref_cells(doc):
  """{(table, col): (kind, target, {row: value})} for data Ref/RefList columns of user and metadata tables."""
  out = {}
  tmap = {t['id']: t['tableId'] for t in doc.tables_meta()}
  for c in doc.columns_meta():
    typ = c['type']
    if c['isFormula'] or not (typ.startswith('Ref:') or typ.startswith('RefList:')):
      continue
    tid = tmap.get(c['parentId'])
    if tid is None or tid not in doc.engine.tables:
      continue
    rep = doc.fetch_repr(tid, formulas=False)
    if c['colId'] not in rep[3]:
      continue
    kind, target = typ.split(':', 1)
    out[(tid, c['colId'])] = (kind, target, dict(zip(rep[2], rep[3][c['colId']])))
  for mt, cols in meta_ref_columns().items():
    if mt not in doc.engine.tables:
      continue
    rep = doc.fetch_repr(mt)
    for col, (kind, target) in cols.items():
      if col in rep[3]:
        out[(mt, col)] = (kind, target, dict(zip(rep[2], rep[3][col])))
  return out


def expected_after(kind, value, removed):
  if kind == 'Ref':
    return 0 if (isinstance(value, int) and not isinstance(value, bool) and value in removed) else value
  if isinstance(value, list) and value and value[0] == 'L':
    kept = [x for x in value[1:] if not (isinstance(x, int) and not isinstance(x, bool) and x in removed)]
    return (['L'] + kept) if kept else None
  return value


def mentions(kind, value, removed):
  if kind == 'Ref':
    return isinstance(value, int) and not isinstance(value, bool) and value in removed
  return isinstance(value, list) and value[:1] == ['L'] and any(
    isinstance(x, int) and not isinstance(x, bool) and x in removed for x in value[1:])


def run_case(case):
  out = Outcome()
  hr = HistoryRun(case['h'], snapshots=False)
  hr.run(None)
  st8 = {'nt': False}
  for ops_ in case.get('removals', []):
    uas = O.resolve_bundle(hr.doc, [op for op in ops_ if op.get('k') in REMOVAL_KINDS])
    if not uas:
      continue
    before_rows = {t: set(hr.doc.row_ids(t)) for t in hr.doc.engine.tables}
    before = ref_cells(hr.doc)
    hr._exec(uas, False, None)
    s = hr.steps[-1]
    if not s.reply.ok:
      continue
    sig = bundle_sig(uas)
    after_rows = {t: set(hr.doc.row_ids(t)) for t in hr.doc.engine.tables}
    removed = {t: before_rows[t] - after_rows.get(t, set()) for t in before_rows}
    after = ref_cells(hr.doc)
    for key, (kind, target, cells) in after.items():
      rem = removed.get(target) or set()
      b = before.get(key)
      for row, v in cells.items():
        if rem and mentions(kind, v, rem):
          out.fail('C10:dangling:%s:%s' % (('meta:%s.%s' % key) if key[0].startswith('_grist_') else ('user:' + kind), sig),
                   'after %r cell %s[%s].%s = %r still refers to removed row(s) of %s' % (uas, key[0], row, key[1], v, target),
                   {'removed': sorted(rem)[:10]})
          break
        if b and b[0] == kind and b[1] == target and row in b[2] and rem and mentions(kind, b[2][row], rem):
          st8['nt'] = True
          exp = expected_after(kind, b[2][row], rem)
          # The statement fixes the resulting value only for RefList cells ("keeps its other ids in order and
          # becomes empty (None)"); a Ref cell must merely not dangle (metadata may legitimately re-point it, e.g. a
          # summary section moves to another summary table). Metadata RefLists are only checked for dangling ids.
          if kind == 'RefList' and not key[0].startswith('_grist_') and eqv.canon(exp) != eqv.canon(v):
            out.fail('C10:wrong-cleanup:%s:%s' % (('meta:%s.%s' % key) if key[0].startswith('_grist_') else ('user:' + kind), sig),
                     'after %r cell %s[%s].%s was %r, expected %r after removing %r, got %r' % (
                       uas, key[0], row, key[1], b[2][row], exp, sorted(rem)[:6], v))
            break
      if not out['ok']:
        break
    if not out['ok']:
      break
    out.cls('removal-bundle-ok')
  out['concrete'] = hr.concrete()
  out['key'] = eqv.digest(out['concrete'])
  out['nontrivial'] = st8['nt']
  out.cls(*sorted(hr.labels))
  return out
