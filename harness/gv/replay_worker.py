"""Child process for C30: reads one JSON request per line ({'history': [[ua,...],...]}), replays it on a fresh
engine and answers with per-bundle digests of the full reply and a digest of the final document."""
import json, sys
from . import env
env.setup()
from .doc import Doc            # noqa: E402
from .eqv import digest, canon  # noqa: E402


def run(history):
  d = Doc()
  out = []
  for uas in history:
    r = d.apply(uas)
    if r.ok:
      rep = {k: r.rep[k] for k in ('stored', 'undo', 'direct', 'retValues', 'calc')}
      out.append(digest(canon_keep_order(rep)))
    else:
      out.append('ERR:' + type(r.error).__name__)
  snap = d.snapshot()
  return {'bundles': out, 'final': digest(snap)}


def canon_keep_order(x):
  # exact reply content, order-sensitive; bool/number distinction and NaN handled by canon
  return canon(x)


def main():
  for line in sys.stdin:
    line = line.strip()
    if not line:
      continue
    req = json.loads(line)
    try:
      res = run(req['history'])
    except Exception as e:     # harness-level problem: report, parent turns it into a harness error
      res = {'error': repr(e)}
    sys.stdout.write(json.dumps(res) + '\n')
    sys.stdout.flush()


if __name__ == '__main__':
  main()
