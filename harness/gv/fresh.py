"""Fresh-engine loading (C05 recalculation from scratch, C07 reopen). DESIGN.md C05/C07."""
import marshal
from . import env
env.setup()
import engine as _engine      # noqa: E402
import actions as _actions    # noqa: E402
import main as _main          # noqa: E402
from .doc import Doc, Reply   # noqa: E402


def through_db(rep):
  """['TableData', id, row_ids, {col: values}] as reported by the engine -> actions.TableData decoded the
  way main.table_data_from_db decodes database values (encoded objects travel as marshalled blobs)."""
  cols = {k.encode('utf8'): [marshal.dumps(v) if isinstance(v, list) else v for v in vals]
          for k, vals in rep[3].items()}
  cols[b'id'] = list(rep[2])
  return _main.table_data_from_db(rep[1], marshal.dumps(cols))


class LoadedDoc(Doc):
  def __init__(self, engine):
    self.engine = engine
    self.log = []
    self.init_reply = None


def fresh_load(src_doc, formulas, make_engine=None):
  """New engine loaded from what `src_doc` reports. formulas=False: data columns only (C05);
  formulas=True: stored formula values too (C07). Returns (LoadedDoc, Calculate reply)."""
  src = src_doc.engine
  e2 = (make_engine or _engine.Engine)()
  mt = through_db(_actions.get_action_repr(src.fetch_table('_grist_Tables')))
  mc = through_db(_actions.get_action_repr(src.fetch_table('_grist_Tables_column')))
  e2.load_meta_tables(mt, mc)
  for t in sorted(src.tables):
    if t in ('_grist_Tables', '_grist_Tables_column'):
      continue
    is_meta = t.startswith('_grist_')
    rep = _actions.get_action_repr(src.fetch_table(t, formulas=(formulas or is_meta)))
    e2.load_table(through_db(rep))
  d2 = LoadedDoc(e2)
  r = d2.calculate()
  return d2, r
