"""Engine driver: a document = one Engine fed user-action reprs (DESIGN.md section 3, E1)."""
import copy
from . import env
env.setup()

import engine as _engine      # noqa: E402  (from VERIF_REPO)
import useractions as _ua     # noqa: E402
import actions as _actions    # noqa: E402

from . import eqv             # noqa: E402


class Reply(object):
  """Result of one bundle: either .error (exception) or the ActionGroup repr."""
  def __init__(self, uas, rep=None, error=None):
    self.uas = uas
    self.rep = rep
    self.error = error

  @property
  def ok(self):
    return self.error is None

  @property
  def stored(self): return self.rep['stored']
  @property
  def undo(self): return self.rep['undo']
  @property
  def direct(self): return self.rep['direct']
  @property
  def ret(self): return self.rep['retValues']
  @property
  def calc(self): return self.rep['calc']


class Doc(object):
  def __init__(self, init=True, make_engine=None):
    self.engine = (make_engine or _engine.Engine)()
    self.engine.load_empty()
    self.log = []          # concrete history: list of [ok, [ua reprs]]
    self.init_reply = None
    if init:
      self.init_reply = self.apply([['InitNewDoc']])

  # -- applying ------------------------------------------------------------
  def apply(self, uas, record=True):
    """Apply one bundle of user-action reprs. Never raises for engine errors."""
    uas = copy.deepcopy(uas)
    try:
      parsed = [_ua.from_repr(copy.deepcopy(u)) for u in uas]
      out = self.engine.apply_user_actions(parsed)
      rep = out.get_repr()
      r = Reply(uas, rep=rep)
    except Exception as e:   # engine rejected / failed the bundle
      r = Reply(uas, error=e)
    if record:
      self.log.append([r.ok, uas])
    return r

  def calculate(self):
    return self.apply([['Calculate']], record=False)

  # -- observing -----------------------------------------------------------
  def snapshot(self, formulas=True):
    return eqv.snapshot(self.engine, formulas=formulas)

  def view(self, table_id, formulas=True):
    return eqv.table_view(self.engine, table_id, formulas=formulas)

  def fetch_repr(self, table_id, formulas=True):
    return _actions.get_action_repr(self.engine.fetch_table(table_id, formulas=formulas))

  def meta(self, table_id):
    """Rows of a metadata (or any) table as list of dicts incl. 'id' (raw encoded values)."""
    rep = self.fetch_repr(table_id)
    ids = rep[2]
    cols = rep[3]
    return [dict({'id': r}, **{c: cols[c][i] for c in cols}) for i, r in enumerate(ids)]

  # -- schema view (read from metadata through fetch_table only) -----------
  def tables_meta(self):
    return self.meta('_grist_Tables')

  def columns_meta(self):
    return self.meta('_grist_Tables_column')

  def user_tables(self, include_summary=False):
    """[(tableRef, tableId)] for non-summary user tables in tableRef order."""
    out = []
    for t in self.tables_meta():
      if t['summarySourceTable'] and not include_summary:
        continue
      out.append((t['id'], t['tableId']))
    return out

  def summary_tables(self):
    return [(t['id'], t['tableId'], t['summarySourceTable']) for t in self.tables_meta()
            if t['summarySourceTable']]

  def columns(self, table_ref, visible_only=True):
    """Column metadata dicts of a table, in parentPos order."""
    cols = [c for c in self.columns_meta() if c['parentId'] == table_ref]
    cols.sort(key=lambda c: (c['parentPos'] if isinstance(c['parentPos'], (int, float)) else 0, c['id']))
    if visible_only:
      cols = [c for c in cols if not is_hidden_col(c['colId'])]
    return cols

  def row_ids(self, table_id):
    return list(self.fetch_repr(table_id)[2])

  def concrete_history(self):
    return copy.deepcopy(self.log)


def is_hidden_col(col_id):
  return col_id == 'manualSort' or col_id.startswith('gristHelper_') or col_id.startswith('#')


def replay_history(history, make_engine=None):
  """Fresh Doc fed a concrete history ([[ok, uas], ...]); InitNewDoc is part of the log."""
  d = Doc(init=False, make_engine=make_engine)
  for ok, uas in history:
    d.apply(uas)
  return d
