"""Shared driver for history-shaped cases: {'prelude': {...}, 'bundles': [[op,...],...], ...}."""
from .doc import Doc
from . import ops as O
from . import eqv


class Step(object):
  """One executed bundle."""
  __slots__ = ('index', 'uas', 'reply', 'before', 'after', 'is_prelude', 'log_pos')

  def __init__(self, index, uas, reply, before, after, is_prelude, log_pos=None):
    self.index = index; self.uas = uas; self.reply = reply
    self.before = before; self.after = after; self.is_prelude = is_prelude
    self.log_pos = log_pos     # len(doc.log) before this bundle was applied


def kinds_of(uas):
  return sorted(set(u[0] + (':' + u[1] if len(u) > 1 and isinstance(u[1], str) and u[1].startswith('_grist_') else '')
                    for u in uas))


def bundle_sig(uas):
  return '+'.join(kinds_of(uas))


def diff_locus(d):
  """Coarse location of the first difference of an eqv.diff() result, for signatures."""
  if not d:
    return 'none'
  e = d[0]
  t = e[0]
  tcat = t if t.startswith('_grist_') else 'usertable'
  if len(e) >= 2 and isinstance(e[1], str):
    if e[1] in ('row ids', 'table only in first', 'table only in second'):
      return '%s:%s' % (tcat, e[1].replace(' ', '-'))
    col = e[1] if t.startswith('_grist_') else ('gristHelper' if e[1].startswith('gristHelper') else
                                                  ('manualSort' if e[1] == 'manualSort' else 'col'))
    return '%s.%s' % (tcat, col)
  return tcat


class HistoryRun(object):
  """Executes prelude + bundles on a Doc, calling hooks; collects class labels."""

  def __init__(self, case, make_engine=None, snapshots=True, settle=True):
    # settle: after a bundle that failed, apply ['Calculate'] as a bundle of its own, so that what the
    # rollback left dirty (a C04 matter, see known findings) is flushed before the history goes on.
    self.settle = settle
    self.case = case
    self.doc = Doc(make_engine=make_engine)
    self.snapshots = snapshots
    self.steps = []
    self.labels = set()
    self.n_ok = 0
    self.n_fail = 0
    self.n_schema_ok = 0
    self.n_record_ok = 0
    self.initial = self.doc.snapshot() if snapshots else None

  def _exec(self, uas, is_prelude, on_step):
    before = self.steps[-1].after if (self.steps and self.snapshots) else (self.initial if self.snapshots else None)
    log_pos = len(self.doc.log)
    r = self.doc.apply(uas)
    after = self.doc.snapshot() if self.snapshots else None
    st = Step(len(self.steps), uas, r, before, after, is_prelude, log_pos)
    self.steps.append(st)
    if r.ok:
      self.n_ok += 1
      for u in uas:
        if O.is_schema_action(u):
          self.n_schema_ok += 1
        else:
          self.n_record_ok += 1
        self.labels.add('ok:' + u[0])
    else:
      self.n_fail += 1
      self.labels.add('rejected-bundle')
    stop = on_step(st) if on_step is not None else None
    if stop:
      return stop
    if not r.ok and self.settle and uas != [['Calculate']]:
      self.labels.add('settled-after-failed-bundle')
      return self._exec([['Calculate']], is_prelude, on_step)
    return None

  def run(self, on_step=None):
    """on_step(step) may return a truthy value to stop early (returned from run)."""
    case = self.case
    if case.get('concrete') is not None:
      # stable form used by regression replays: the exact user actions, no resolution
      for item in case['concrete']:
        uas = item[1] if (len(item) == 2 and isinstance(item[0], bool)) else item
        stop = self._exec(uas, False, on_step)
        if stop:
          return stop
      return None
    if case.get('prelude'):
      rec = _Recorder(self, on_step)
      O.run_prelude(rec, case['prelude'])
      if rec.stop:
        return rec.stop
    for ops in case.get('bundles', []):
      uas = O.resolve_bundle(self.doc, ops)
      if not uas:
        continue
      stop = self._exec(uas, False, on_step)
      if stop:
        return stop
    return None

  def has_formula_columns(self):
    return any(c['isFormula'] and c['formula'] for c in self.doc.columns_meta()
               if not c['colId'].startswith('gristHelper'))

  def concrete(self):
    return [[s.reply.ok, s.uas] for s in self.steps]


class _Recorder(object):
  """Doc-like facade handed to run_prelude so prelude bundles go through HistoryRun._exec."""
  def __init__(self, hr, on_step):
    self.hr = hr; self.on_step = on_step; self.stop = None

  def apply(self, uas):
    if self.stop:
      return None
    self.stop = self.hr._exec(uas, True, self.on_step)
    return self.hr.steps[-1].reply

  def __getattr__(self, name):
    return getattr(self.hr.doc, name)


# ---------------------------------------------------------------------------
# Attribution helpers (DESIGN.md corrections log): a formula cell that differs after undo/redo/reopen
# is only charged to that property when the *reference* state was itself a fixpoint of recalculation.

def stale_cells_of(concrete_history, upto):
  """Replays concrete_history[:upto] and returns the set of (table, col, row) formula cells whose
  stored value differs from what a fresh engine computes from the same data (C05 oracle)."""
  from .doc import replay_history
  from . import fresh
  d = replay_history(concrete_history[:upto])
  d2, _ = fresh.fresh_load(d, formulas=False)
  snap = d.snapshot()
  structural, cells = eqv.cells_diff(snap, d2.snapshot())
  # only formula cells can be "stale"; data cells (trigger-formula columns included) are loaded, not recomputed
  return set((t, c, r) for (t, c, r, _, _) in cells if col_kind(snap, t, c) in ('formula', 'helper')), structural


def is_cycle_error_pair(va, vb):
  """Both values are errors and at least one is a CircularRefError: the error a cell on (or reaching) a
  dependency cycle through lookups shows depends on evaluation order; C18 only fixes same-row cycles."""
  if eqv.is_error_cell(va) and eqv.is_error_cell(vb):
    return 'CircularRefError' in (va[1] if len(va) > 1 else None, vb[1] if len(vb) > 1 else None)
  return False


def is_keyerror(v):
  return eqv.is_error_cell(v) and len(v) > 1 and v[1] == 'KeyError'


def summary_tables_of(snapshot):
  out = set()
  t = snapshot.get('_grist_Tables')
  if not t:
    return out
  for r in t['id']:
    if t['summarySourceTable'].get(r):
      out.add(t['tableId'].get(r))
  return out


LOOKUPISH = set(['lookupRecords', 'lookupOne', 'PREVIOUS', 'NEXT', 'RANK', 'order_by', 'sort_by', 'group', 'all',
                 'find', 'CONTAINS', 'group_by'])


def index_columns_of(text):
  """Column ids that a formula's lookups are keyed or sorted by: keyword names of lookupRecords/lookupOne and the
  identifiers inside order_by / sort_by / group_by arguments."""
  out = set()
  for args in _re.findall(r'lookup(?:Records|One)\(([^)]*)\)', text or ''):
    out.update(_re.findall(r'([A-Za-z_]\w*)\s*=', args))
  for args in _re.findall(r'(?:order_by|sort_by|group_by)\s*=\s*(\([^)]*\)|"[^"]*"|\'[^\']*\')', text or ''):
    out.update(_re.findall(r'[A-Za-z_]\w*', args))
  return out - set(['order_by', 'sort_by', 'group_by', 'id', 'None'])


def lookup_cycle_possible(formulas, cols):
  """Coarse static test for a REAL dependency cycle through a lookup index: some formula column X reachable from
  `cols` (following "formula text mentions the id of a formula column") does a lookup keyed or sorted by a
  formula column I whose own formula (transitively) mentions X. The index over I needs every cell of I, so X
  depends on itself whatever the rows are. Cross-row chains such as PREVIOUS(rec, order_by=None).X are not of this
  kind (their index is keyed by nothing and sorted by position), they stay judged."""
  toks = {k: set(_re.findall(r'[A-Za-z_]\w*', v or '')) for k, v in formulas.items()}
  by_name = {}
  for (t, c) in formulas:
    by_name.setdefault(c, []).append((t, c))

  def succ(k):
    out = []
    for name in toks.get(k, ()):
      out.extend(by_name.get(name, ()))
    return out

  def reach(start):
    seen, stack = set(), list(succ(start))
    while stack:
      k = stack.pop()
      if k in seen:
        continue
      seen.add(k)
      stack.extend(succ(k))
    return seen

  for c0 in cols:
    if c0 not in formulas:
      continue
    for x in reach(c0) | set([c0]):
      for name in index_columns_of(formulas.get(x, '')):
        for i in by_name.get(name, ()):
          if x == i or x in reach(i):
            return True
  return False


def swallowed_cycle_possible(formulas, cols):
  """A same-row reference cycle ($X / rec.X without a further dereference, through formula columns AND trigger
  formulas of data columns) that passes through a formula which swallows exceptions (IFERROR, try/except): the
  CircularRefError - or the engine's internal re-ordering exception - is then caught by user code, and which cell
  ends up with which value depends on the evaluation order. `formulas` = {(table, col): text} for every column with
  a formula text (trigger formulas included)."""
  def succ(k):
    t, _ = k
    out = []
    for name in _re.findall(r'(?:\$|\brec\.)([A-Za-z_]\w*)\b(?!\s*\.)', formulas.get(k, '') or ''):
      if (t, name) in formulas:
        out.append((t, name))
    return out

  def swallows(k):
    f = formulas.get(k, '') or ''
    return 'IFERROR' in f or 'except' in f

  for c0 in cols:
    # depth-first search for a cycle reachable from c0 containing a swallowing formula
    stack = [(c0, [c0])]
    seen = set()
    while stack:
      k, path = stack.pop()
      for n in succ(k):
        if n in path:
          cyc = path[path.index(n):]
          if any(swallows(x) for x in cyc):
            return True
          continue
        if (n, len(path)) in seen or len(path) > 8:
          continue
        seen.add((n, len(path)))
        stack.append((n, path + [n]))
  return False


def all_formulas(doc):
  """{(tableId, colId): text} for every column that has a formula text (trigger formulas of data columns too)."""
  tmap = {t['id']: t['tableId'] for t in doc.tables_meta()}
  return {(tmap.get(c['parentId']), c['colId']): c['formula'] for c in doc.columns_meta() if c['formula']}


def cycle_filter(cells, kind_of, formulas=None):
  """Differing cells that are not judged because a dependency cycle is involved: pairs of two errors of which
  one is CircularRefError, and - when some differing pair has CircularRefError on one side only AND the formulas
  involved can form a cycle through a lookup index or sorted neighbours (lookup_cycle_possible) - every differing
  FORMULA cell: such a cycle is noticed or not depending on evaluation order, and the cells downstream of it
  differ accordingly (C18 fixes the outcome only for reference cycles, which stay judged). Data and metadata
  cells are always judged. Returns (cells still judged, whether anything was dropped)."""
  real = [x for x in cells if not is_cycle_error_pair(x[3], x[4])]
  if any(_is_circ(x[3]) != _is_circ(x[4]) for x in real):
    fcols = [(x[0], x[1]) for x in real if kind_of(x[0], x[1]) in ('formula', 'helper')]
    if formulas is None or lookup_cycle_possible(formulas, fcols):
      real = [x for x in real if kind_of(x[0], x[1]) not in ('formula', 'helper')]
    elif swallowed_cycle_possible(formulas, [(x[0], x[1]) for x in real]):
      # (data cells of trigger columns on such a cycle are part of it)
      real = [x for x in real if not (_is_circ(x[3]) or _is_circ(x[4]) or kind_of(x[0], x[1]) in ('formula', 'helper'))]
  return real, len(real) < len(cells)


def _is_circ(v):
  return eqv.is_error_cell(v) and len(v) > 1 and v[1] == 'CircularRefError'


def formulas_of_snapshot(snapshot):
  """{(tableId, colId): formula text} from the metadata held in a snapshot."""
  t = snapshot.get('_grist_Tables')
  c = snapshot.get('_grist_Tables_column')
  out = {}
  if not t or not c:
    return out
  for r in c['id']:
    if c['formula'].get(r):
      out[(t['tableId'].get(c['parentId'].get(r)), c['colId'].get(r))] = c['formula'].get(r)
  return out


def summary_keys_object_valued(snapshot, summary_table_id):
  """Snapshot version of summary_groupby_record_valued: does a group-by column of this summary table, or the source
  column it copies, hold an encoded object (anything but a plain list in a list-typed column) or NaN?"""
  t = snapshot.get('_grist_Tables'); c = snapshot.get('_grist_Tables_column')
  if not t or not c:
    return False
  tref = [r for r in t['id'] if t['tableId'].get(r) == summary_table_id]
  if not tref:
    return False
  tname = {r: t['tableId'].get(r) for r in t['id']}
  def bad(v, is_list_col):
    if isinstance(v, list) and v and (v[0] != 'L' or not is_list_col):
      return True
    return isinstance(v, float) and v != v
  for r in c['id']:
    if c['parentId'].get(r) == tref[0] and c['summarySourceCol'].get(r):
      src = c['summarySourceCol'].get(r)
      for (tab, col, typ) in ((summary_table_id, c['colId'].get(r), c['type'].get(r) or ''),
                              (tname.get(c['parentId'].get(src)), c['colId'].get(src), c['type'].get(src) or '')):
        is_list = typ.split(':')[0] in ('ChoiceList', 'RefList')
        vals = (snapshot.get(tab) or {}).get(col) or {}
        if any(bad(v, is_list) for v in (vals.values() if isinstance(vals, dict) else vals)):
          return True
  return False


def summary_source_of(snapshot, summary_table_id):
  t = snapshot.get('_grist_Tables')
  if not t:
    return None
  for r in t['id']:
    if t['tableId'].get(r) == summary_table_id and t['summarySourceTable'].get(r):
      return t['tableId'].get(t['summarySourceTable'].get(r))
  return None


def only_summary_renumbering(before, after):
  """True when the two snapshots differ only in that rows of summary tables carry different row ids
  (same multiset of row contents)."""
  stabs = summary_tables_of(before) | summary_tables_of(after)
  structural, cells = eqv.cells_diff(before, after)
  if cells:
    return False
  if not structural:
    return False
  for e in structural:
    if e[1] != 'row ids' or e[0] not in stabs:
      return False
    ra, _ = eqv.rows_multiset(before[e[0]])
    rb, _ = eqv.rows_multiset(after[e[0]])
    if ra != rb:
      return False
  return True


import re as _re

def formula_features(text):
  """Coarse feature tags of a formula text (used in signatures and class labels)."""
  tags = []
  checks = [('lookupRecords', 'lookupRecords'), ('lookupOne', 'lookupOne'), ('CONTAINS', 'CONTAINS'),
            ('order_by', 'order_by'), ('sort_by', 'sort_by'), ('.find.', 'find'), ('PREVIOUS(', 'PREVIOUS'),
            ('NEXT(', 'NEXT'), ('RANK(', 'RANK'), ('$group', 'group'), ('.all', 'all'), ('group_by', 'group_by')]
  for needle, tag in checks:
    if needle in text:
      tags.append(tag)
  if _re.search(r'\$\w+\.\w+', text) and '$group' not in text:
    tags.append('refchain')
  return tags or ['plain']


CROSS_ROW = set(['lookupRecords', 'lookupOne', 'PREVIOUS', 'NEXT', 'RANK', 'group', 'all', 'refchain'])


def formulas_by_col(doc):
  """{(tableId, colId): formula text} for formula columns of user tables."""
  tmap = {t['id']: t['tableId'] for t in doc.tables_meta()}
  out = {}
  for c in doc.columns_meta():
    if c['formula'] and c['isFormula']:
      out[(tmap.get(c['parentId']), c['colId'])] = c['formula']
  return out


def summary_groupby_record_valued(doc, table_id):
  """True if `table_id` is a summary table with a group-by column holding encoded objects other than plain
  lists in list-typed columns (records ['R'..]/['r'..], errors ['E'..], lists in non-list columns ...):
  such keys do not survive a reload (they decode to stub/exception objects that no longer match)."""
  tm = [t for t in doc.tables_meta() if t['tableId'] == table_id]
  if not tm or not tm[0]['summarySourceTable']:
    return False
  rep = doc.fetch_repr(table_id)
  cols = {c['id']: c for c in doc.columns_meta()}
  tids = {t['id']: t['tableId'] for t in doc.tables_meta()}
  src_rep = None
  for c in cols.values():
    if c['parentId'] == tm[0]['id'] and c['summarySourceCol']:
      for v in rep[3].get(c['colId'], []):
        if isinstance(v, list) and v and v[0] != 'L':
          return True
        if isinstance(v, float) and v != v:        # NaN never equals itself: it cannot be matched as a group key
          return True
      src = cols.get(c['summarySourceCol'])
      if src:
        is_list_col = src['type'].split(':')[0] in ('ChoiceList', 'RefList')
        if src_rep is None:
          src_rep = doc.fetch_repr(tids[src['parentId']])
        for v in src_rep[3].get(src['colId'], []):
          # errors, records (anywhere); lists in a scalar column of the source
          if isinstance(v, list) and v and (v[0] != 'L' or not is_list_col):
            return True
          if isinstance(v, float) and v != v:
            return True
  return False


def col_kind(snapshot, table_id, col_id):
  """'formula' | 'data' | 'helper' | 'manualSort' | 'meta' for a column, read from the snapshot's metadata."""
  if table_id.startswith('_grist_'):
    return 'meta'
  if col_id == 'manualSort':
    return 'manualSort'
  if col_id.startswith('gristHelper_'):
    return 'helper'
  tabs, cols = snapshot.get('_grist_Tables'), snapshot.get('_grist_Tables_column')
  if not tabs or not cols:
    return 'unknown'
  tref = [r for r in tabs['id'] if tabs['tableId'].get(r) == table_id]
  if not tref:
    return 'unknown'
  for r in cols['id']:
    if cols['parentId'].get(r) == tref[0] and cols['colId'].get(r) == col_id:
      return 'formula' if cols['isFormula'].get(r) == '#true' else 'data'
  return 'unknown'


def judge_state_diff(ref, obs, full_log, upto):
  """Compares an observed snapshot with the reference snapshot it must equal (undo/redo/reopen...).
  Returns (failure or None, labels). failure = (signature_suffix, detail). Differences that are not
  charged: error-kind differences involving CircularRefError; formula cells whose *reference* value was
  itself stale w.r.t. a fresh recalculation (charged to C05 instead). `full_log[:upto]` must rebuild the
  reference state."""
  labels = []
  structural, cells = eqv.cells_diff(ref, obs)
  if not structural and not cells:
    return None, labels
  if only_summary_renumbering(ref, obs):
    return ('summary-rows-renumbered', structural[:3]), labels
  if structural:
    e = structural[0]
    what = e[1] if e[1] in ('row ids',) or e[1].startswith('table only') else 'column-set'
    tcat = e[0] if e[0].startswith('_grist_') else ('summarytable' if e[0] in (summary_tables_of(ref) | summary_tables_of(obs)) else 'usertable')
    if tcat == 'summarytable' and what == 'row ids' and (summary_keys_object_valued(ref, e[0]) or
                                                       summary_keys_object_valued(obs, e[0])):
      # group-by cells holding records / errors / lists in a scalar column / NaN: the listed finding
      # summary-groupby-object-valued (such keys do not survive encoding), outside the generated domain
      labels.append('summary-groupby-object-valued(not judged)')
      return None, labels
    if tcat == 'summarytable' and what == 'row ids' and all(x[0] == e[0] for x in structural):
      # Which summary rows exist follows from the source table's group-by cells. If such a (formula) cell was
      # already stale in the reference state, the summary rows of the reference state are stale too: C05 matter.
      src = summary_source_of(ref, e[0])
      try:
        stale, _ = stale_cells_of(full_log, upto)
      except Exception:
        stale = set()
      if src and any(t == src for (t, c, r) in stale):
        labels.append('reference-state-was-stale(summary rows; charged to C05)')
        return None, labels
    return ('structure:%s:%s' % (tcat, what.replace(' ', '-')), structural[:4]), labels
  real, _ = cycle_filter(cells, lambda t, c: col_kind(ref, t, c), formulas_of_snapshot(ref))
  # An error value that went through encoding (stored in a data cell, or restored by undo actions) no longer
  # carries its exception object: a formula reading it reports a wrapper around None ('NoneType') instead of
  # the original class. Listed under C05 (reload:stored-error-reraised-as-NoneType); not charged again here.
  n0 = len(real)
  real = [x for x in real if not (eqv.is_error_cell(x[3]) and eqv.is_error_cell(x[4]) and
                                  (x[3][1:2] == ['NoneType']) != (x[4][1:2] == ['NoneType']))]
  if len(real) < n0:
    labels.append('error-kind-NoneType-after-decoding(C05 known finding)')
  if len(real) < len(cells):
    labels.append('cycle-error-kind-differs(not judged)')
  if not real:
    return None, labels
  if any(col_kind(ref, x[0], x[1]) == 'formula' for x in real):
    try:
      stale, _ = stale_cells_of(full_log, upto)
    except Exception:
      stale = set()
    kept = [x for x in real if (x[0], x[1], x[2]) not in stale]
    if len(kept) < len(real):
      labels.append('reference-state-was-stale(charged to C05)')
    real = kept
  # Python int vs float of the same number (1 vs 1.0): not observable by Node (one JSON number), and the harness
  # hands undo/redo values back as Python objects where Node would hand back JS numbers. A formula that formats such
  # a value as text shows the difference ('|1' vs '|1.0'): not judged.
  def _numrep(v):
    return _re.sub(r'(?<![\d.])(-?\d+)\.0(?!\d)', r'\1', v) if isinstance(v, str) else v
  n1 = len(real)
  real = [x for x in real if not (col_kind(ref, x[0], x[1]) == 'formula' and isinstance(x[3], str) and
                                  isinstance(x[4], str) and _numrep(x[3]) == _numrep(x[4]))]
  if len(real) < n1:
    labels.append('int-vs-float-text(not Node-observable)')
  if not real:
    return None, labels
  # representative cell: prefer metadata / data cells over formula cells
  rank = {'meta': 0, 'data': 1, 'manualSort': 1, 'unknown': 2, 'helper': 3, 'formula': 4}
  real.sort(key=lambda x: rank.get(col_kind(ref, x[0], x[1]), 2))
  t, c, r, va, vb = real[0]
  tcat = t if t.startswith('_grist_') else 'usertable'
  kind = col_kind(ref, t, c)
  if all(col_kind(ref, x[0], x[1]) == 'formula' and eqv.is_error_cell(x[4]) and x[4][1:2] == ['NameError'] and
         x[3][1:2] != ['NameError'] for x in real):
    # listed under C05 (NameError-not-recomputed-after-table-added): a formula that named a missing table is not
    # re-evaluated when the table comes back (here: through undo)
    return ('cells:NameError-stale-after-table-restored', [list(x) for x in real[:6]]), labels
  if all(col_kind(ref, x[0], x[1]) == 'formula' for x in real) and \
     lookup_key_retyped_in_log(full_log, formulas_of_snapshot(ref), [(x[0], x[1]) for x in real]):
    # listed under C13/C05: a lookup does not notice that its key column changed type (and back)
    return ('cells:lookup-key-column-type-changed', [list(x) for x in real[:6]]), labels
  if all(is_keyerror(x[3]) != is_keyerror(x[4]) and col_kind(ref, x[0], x[1]) == 'formula' for x in real):
    # one side is a lookup KeyError ("table has no column"), the other a value: see known finding
    return ('cells:lookup-KeyError-stale', [list(x) for x in real[:6]]), labels
  loc = '%s.%s' % (tcat, c if kind == 'meta' else kind)
  return ('cells:' + loc, [list(x) for x in real[:6]]), labels


def made_formula_then_removed(uas, cells, kind_of=None):
  """Root cause shared by several undo mismatches: one bundle turns a data column into a formula column
  (ModifyColumn isFormula=True) and, before any recalculation, removes rows of that table or the column itself.
  The undo of the removal does not carry the column's values (it is a formula column by then) and the undo of
  the conversion relies on calculated-value deltas that were never produced, so the stored data comes back as
  the formula-era value / the type default. True when every differing cell lies in such a column."""
  conv = {}
  for i, u in enumerate(uas):
    if u[0] == 'ModifyColumn' and isinstance(u[3], dict) and u[3].get('isFormula') is True:
      conv.setdefault((u[1], u[2]), i)
  hit = set()
  for (t, c), i in conv.items():
    for u in uas[i + 1:]:
      if (u[0] in ('RemoveRecord', 'BulkRemoveRecord', 'ReplaceTableData') and u[1] == t) or \
         (u[0] == 'RemoveColumn' and u[1] == t and u[2] == c):
        hit.add((t, c))
  if kind_of is not None:      # dependents (formula cells) of the lost data differ too
    cells = [x for x in cells if kind_of(x[0], x[1]) != 'formula']
  return bool(cells) and all((x[0], x[1]) in hit for x in cells)


def made_formula_with_type_change(uas, cells, kind_of=None):
  """Second root cause around data->formula conversion: ONE ModifyColumn turns a data column into a formula
  column and changes its type. Undo (and the engine's own rollback, which applies the same undo actions) restores
  the old data through the undo of the calculated values, which is applied while the column still has its new
  type - the restored values are coerced by that type (Int 0 -> False under Bool, ...) and stay that way when the
  column gets its old type back. True when every differing data cell lies in such a column."""
  hit = {}
  for u in uas:
    if u[0] == 'ModifyColumn' and isinstance(u[3], dict) and u[3].get('isFormula') is True and 'type' in u[3]:
      hit[(u[1], u[2])] = u[3]['type']
  if kind_of is not None:
    cells = [x for x in cells if kind_of(x[0], x[1]) != 'formula']
  if not cells or not hit:
    return False
  # Narrow on purpose: only the coercion actually observed on the pinned tree counts - a Bool column turns a
  # restored 0/1 into false/true. Any other difference in such a column is reported as a violation.
  for (t, c, r, before, after) in cells:
    if hit.get((t, c)) != 'Bool':
      return False
    if not ((before in (0, 0.0) and not isinstance(before, str) and after == '#false') or
            (before in (1, 1.0) and not isinstance(before, str) and after == '#true')):
      return False
  return True


def lookup_key_retyped_in_log(full_log, formulas, cols):
  """True if every column in `cols` has a formula doing a lookup keyed by a column whose type some successful bundle
  of the history changed (ModifyColumn with 'type', also inside undo action lists)."""
  retyped = set()

  def scan(actions_):
    for u in actions_:
      if not isinstance(u, (list, tuple)) or not u:
        continue
      if u[0] == 'ModifyColumn' and len(u) > 3 and isinstance(u[3], dict) and 'type' in u[3]:
        retyped.add((u[1], u[2]))
      elif u[0] in ('ApplyUndoActions', 'ApplyDocActions') and len(u) > 1 and isinstance(u[1], list):
        scan(u[1])
  for ok, uas in full_log:
    if ok:
      scan(uas)
  if not retyped or not cols:
    return False
  for k in cols:
    f = formulas.get(k, '') or ''
    ms = _re.findall(r'(\w+)\.lookup(?:Records|One)\(([^)]*)\)', f)
    if not any((tname, key) in retyped for tname, args in ms for key in _re.findall(r'([A-Za-z_]\w*)\s*=', args)):
      return False
  return True


def undo_raised_sig(doc, uas, error, undo=None):
  """Root-cause bucket for an undo that raised: one known cause is the undo of a bundle that both edits source
  records and re-shapes a summary table (regroup / detach / create / remove of a summary section): its undo list
  updates a summary row at a point where that row does not exist (the undo of calculated values is applied
  last, after the undo of the record additions that created the row). Recognised from the undo list itself:
  it updates rows of a summary table (`<source>_summary_...`) AND adds or removes rows of that same table."""
  summary_kinds = ('UpdateSummaryViewSection', 'DetachSummaryViewSection', 'CreateViewSection', 'RemoveViewSection',
                   'RemoveView', 'RemoveTable', 'RemoveColumn', 'ModifyColumn')
  if 'non-existent record' in str(error) and len(uas) >= 2:
    if any(u[0] in summary_kinds for u in uas) and (
        doc.summary_tables() or any(u[0] in ('UpdateSummaryViewSection', 'DetachSummaryViewSection') for u in uas)):
      return 'summary-row-updated-before-it-exists'
    upd, addrm = set(), set()
    for a in (undo or []):
      if isinstance(a, (list, tuple)) and len(a) > 1 and isinstance(a[1], str) and '_summary' in a[1]:
        if a[0] in ('UpdateRecord', 'BulkUpdateRecord'):
          upd.add(a[1])
        elif a[0] in ('AddRecord', 'BulkAddRecord', 'RemoveRecord', 'BulkRemoveRecord'):
          addrm.add(a[1])
    if upd & addrm:
      return 'summary-row-updated-before-it-exists'
  return bundle_sig(uas)
