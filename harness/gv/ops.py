"""Abstract-operation vocabulary for engine histories (DESIGN.md section 3, E1).

A *history* is a JSON list of bundles; a bundle is a list of abstract ops; an op is a small dict
`{'k': kind, ...selectors/values}`. Selectors are integers resolved against the *live* document
when the bundle is executed, so any sub-list of a history is still a meaningful history (this is
what makes deletion-based shrinking work) and the concrete user actions are recorded as they are sent.
"""
from hypothesis import strategies as st

from .doc import is_hidden_col

TABLE_NAMES = ['Alpha', 'Beta', 'People', 'Orders', 'Gamma', 'Items2', 'my table', 'class', 'alpha', None, 'Über', '1st']
COL_NAMES = ['A', 'B', 'C', 'D', 'Name', 'amount', 'x', 'a b', 'class', 'a', None, 'Ünï', 'id2', 'group2', 'E', 'F']
DATA_TYPES = ['Text', 'Int', 'Numeric', 'Bool', 'Choice', 'ChoiceList', 'Date', 'DateTime:UTC', 'Any']
FORMULA_TYPES = ['Any', 'Any', 'Any', 'Int', 'Text', 'Numeric', 'Bool', 'Date', 'Choice']
CHOICES = ['a', 'b', 'c', 'dd']
SCALAR_TYPES = ('Text', 'Int', 'Numeric', 'Bool', 'Date', 'DateTime', 'Choice')
TEXTS = ['', 'a', 'b', 'foo', 'Bar', '12', '1.5', 'x y', 'é', '2020-01-02', 'true', 'a,b', '["a"]', '-3']


# ---------------------------------------------------------------------------
# value specs -> concrete cell values

def cell_value(doc, ctype, spec):
  """spec = [mode, n, s]. Returns an encoded cell value as Node would send it."""
  m, n, s = int(spec[0]) % 12, int(spec[1]), str(spec[2])
  base = ctype.split(':')[0]
  if m == 6:
    return None
  if m == 7:
    return s                       # alt text (or plain text for Text columns)
  if m == 8:                       # deliberately "other-typed" primitive
    return n if base in ('Text', 'Choice', 'ChoiceList', 'Bool') else 'w' + s
  if m == 9:
    return ''
  if m == 10:
    return n + 0.5
  if m == 11:
    return bool(n % 2)
  if base == 'Text':
    return s
  if base == 'Int':
    return n
  if base == 'Numeric':
    return n + (0.25 if m % 2 else 0.0)
  if base == 'Bool':
    return bool(n % 2)
  if base == 'Date':
    return n * 86400
  if base == 'DateTime':
    return n * 3600.0 + (1800 if m % 2 else 0)
  if base == 'Choice':
    return CHOICES[n % len(CHOICES)]
  if base == 'ChoiceList':
    k = m % 3
    return (['L'] + [CHOICES[(n + i) % len(CHOICES)] for i in range(k)]) if k else None
  if base in ('Ref', 'RefList'):
    target = ctype.split(':', 1)[1] if ':' in ctype else ''
    try:
      rows = doc.row_ids(target)
    except Exception:
      rows = []
    if base == 'Ref':
      pool = [0] + rows
      return pool[n % len(pool)]
    k = m % 3
    if not rows or not k:
      return None
    ids = [rows[(n + i) % len(rows)] for i in range(k)]
    if n % 2 == 0:
      ids = ids + ids[:1]          # the same target listed twice (the client does not de-duplicate)
    return ['L'] + ids
  if base == 'Any':
    return [n, s, None, True, n + 0.5, ['L', n, s]][m % 6]
  return s


def valspec():
  return st.tuples(st.integers(0, 11), st.integers(-2, 9), st.sampled_from(TEXTS)).map(list)


# ---------------------------------------------------------------------------
# formula specs -> formula text against the current schema

N_FORMS = 44

def _cols(doc, tref, data_only=False, formula_only=False):
  out = []
  for c in doc.columns(tref):
    if data_only and c['isFormula']:
      continue
    if formula_only and not c['isFormula']:
      continue
    out.append(c)
  return out


def formula_mentions(doc, tref, cid, target, _seen=None):
  """Does the formula of column `cid` of table `tref` mention column `target`, directly or through other formula
  columns of the table (any lookup counts as a mention: it may reach every row and column)?"""
  import re as _re
  seen = _seen if _seen is not None else set()
  if cid in seen:
    return False
  seen.add(cid)
  allf = {x['colId']: x['formula'] for x in doc.columns(tref) if x['formula']}     # (trigger formulas included)
  toks = set(_re.findall(r'[A-Za-z_]\w*', allf.get(cid, '')))
  if target in toks or toks & set(['lookupRecords', 'lookupOne', 'all', 'PREVIOUS', 'NEXT', 'RANK', 'rec', 'RECORD']):
    return True
  return any(formula_mentions(doc, tref, t2, target, seen) for t2 in toks if t2 in allf)


def formula_text(doc, tref, spec, self_col=None, max_ref=None):
  """spec = [form, a, b, c]. Always returns some valid-looking formula text for table `tref`.
  Excludes volatile / side-effecting functions (NOW, TODAY, RANDOM, REQUEST, PEEK, lookupOrAddDerived)."""
  form, a, b, c = [int(x) for x in (list(spec) + [0, 0, 0, 0])[:4]]
  form %= N_FORMS
  tables = doc.tables_meta()
  tmap = {t['id']: t for t in tables}
  me = tmap.get(tref)
  # acyclic by construction (mostly): a formula only mentions columns with a smaller colRef than its own
  lim = (lambda cols: [x for x in cols if x['id'] < max_ref]) if max_ref else (lambda cols: cols)
  mycols = lim([x for x in _cols(doc, tref) if x['colId'] != self_col and x['colId'] != 'group'])
  is_summary = bool(me and me['summarySourceTable'])

  def col(i, cols=None):
    cols = mycols if cols is None else cols
    return cols[i % len(cols)]['colId'] if cols else None

  users = [t for t in tables if not t['summarySourceTable']]
  other = users[b % len(users)] if users else me
  ocols = lim(_cols(doc, other['id'])) if other else []
  oid = other['tableId'] if other else None
  c1 = col(a)
  c2 = col(a + 1 + c)
  oc1 = col(b, ocols)
  oc2 = col(b + 1 + c, ocols)
  refcols = [x for x in mycols if x['type'].startswith('Ref:')]
  rlcols = [x for x in mycols if x['type'].startswith('RefList:')]
  # sort columns / search values: scalar-typed data columns only (C13/C14 require mutually comparable
  # sort values; alt-text in a typed column is still allowed and uses the documented mixed-type fallback)
  def scalar(cols):
    return [x for x in cols if not x['isFormula'] and x['type'].split(':')[0] in SCALAR_TYPES]
  s1 = col(a, scalar(mycols)) or 'id'
  s2 = col(a + 1 + c, scalar(mycols)) or 'id'
  os1 = col(b + c, scalar(ocols)) or 'id'

  if is_summary and form % 4 == 0 and me:
    src = tmap.get(me['summarySourceTable'])
    scols = [x for x in _cols(doc, src['id'])] if src else []
    sc = col(a, scols)
    opts = ['len($group)', 'SUM($group.%s)' % sc if sc else 'len($group)',
            '[r.%s for r in $group]' % sc if sc else '$count', 'MAX(r.id for r in $group)',
            'sorted($group.%s, key=repr)' % sc if sc else '$count * 2']
    return opts[c % len(opts)]
  # value-shape zoo (encodable objects): dates, datetimes, dicts, tuples, NaN/inf, big ints, records
  if form == 26: return 'DATE(2020, 1 + $id %% 3, 1 + %d)' % (a % 5)
  if form == 27: return '{"a": %s, "b": [1, 2.5, None]}' % ('$' + c1 if c1 else '$id')
  if form == 28: return '(%s, "x", None)' % ('$' + c1 if c1 else '$id')
  if form == 29: return 'DATE(2021, 2, 3) if $id %% 2 else DTIME(DATE(2021, 2, 3 + %d))' % (a % 20)
  if form == 30: return 'float("nan") if $id % 2 else float("inf")'
  if form == 31:
    selfc = [x for x in _cols(doc, tref) if x['colId'] == self_col]
    if selfc and selfc[0]['type'].startswith('Ref'):
      return '$id'               # (huge integers as the value of a reference column: outside every listed property)
    return ['2 ** 70 + $id', '-(2 ** 31) - $id', '2 ** 53 + 1'][a % 3]
  if form == 32: return 'rec'
  if form == 33:
    dcols = [x for x in mycols if x['type'].split(':')[0] in ('Date', 'DateTime')]
    if dcols:
      return '$%s' % dcols[a % len(dcols)]['colId']
    return 'DATE(1999, 12, 31)'
  if form == 38: return '10.0 / ($id %% %d)' % (2 + a % 2)          # raises for some rows
  if form == 39: return 'int(str(%s) or "x")' % ('$' + c1 if c1 else '$id')   # ValueError for non-numeric text
  if form in (42, 43):
    # formulas that swallow exceptions (also those the engine raises to re-order evaluation)
    # any formula column of the table whose formula does not (transitively) mention this column: no cycles
    fcs = [x for x in _cols(doc, tref) if x['isFormula'] and x['colId'] != self_col and x['colId'] != 'group'
           and not (self_col and formula_mentions(doc, tref, x['colId'], self_col))] or mycols
    if fcs:
      x = fcs[(a + c) % len(fcs)]
      if form == 42:
        return 'IFERROR($%s, -1)' % x['colId']
      return 'IFERROR($%s, -1) if $id %% 2 else IFERROR(%s, "e")' % (x['colId'], '$' + c1 if c1 else '1/0')
  if form in (40, 41):
    # dependencies between two formula columns across DIFFERENT rows with a possibly cyclic column graph:
    # 40: a same-row reference to ANY other column (later ones included) for one row only, data for the rest;
    # 41: a dereference of ANY column through a reference into the same table.
    allc = [x for x in _cols(doc, tref) if x['colId'] != self_col and x['colId'] != 'group']
    selfrefs = [x for x in allc if x['type'] == 'Ref:%s' % (me['tableId'] if me else '')]
    dcols = [x for x in allc if not x['isFormula'] and x['type'].split(':')[0] in ('Int', 'Numeric', 'Text')]
    if allc and form == 40:
      x = allc[(a + c) % len(allc)]
      alt = ('$%s' % dcols[b % len(dcols)]['colId']) if dcols else '$id * 10'
      return '$%s if $id == %d else %s' % (x['colId'], 1 + a % 3, alt)
    if allc and selfrefs and form == 41:
      r = selfrefs[b % len(selfrefs)]
      x = allc[(a + c) % len(allc)]
      return '$%s.%s if $%s else 0' % (r['colId'], x['colId'], r['colId'])
  if form in (36, 37):
    # cross-row chain through ANY column of the same table (later columns included): the row direction keeps it
    # well-founded while the column graph may be cyclic, so evaluation order really matters (C06)
    allc = [x for x in _cols(doc, tref) if x['colId'] != self_col and x['colId'] != 'group']
    if allc:
      x = allc[(a + c) % len(allc)]
      return '%s(rec, order_by=None).%s' % ('PREVIOUS' if form == 36 else 'NEXT', x['colId'])
  if form in (34, 35):
    # dereference a record-valued *formula* column (lookupOne / PREVIOUS / NEXT results held in an Any column)
    import re as _re
    cands = []
    for x in mycols:
      if not x['isFormula'] or not x['formula']:
        continue
      m = _re.match(r'^(\w+)\.lookupOne\(.*\)$', x['formula'].strip())
      if m:
        cands.append((x, m.group(1)))
      elif _re.match(r'^(PREVIOUS|NEXT)\(rec\b.*\)$', x['formula'].strip()):
        cands.append((x, me['tableId'] if me else None))
    if cands:
      x, tname = cands[a % len(cands)]
      tgt = [t for t in tables if t['tableId'] == tname]
      tc = col(c, _cols(doc, tgt[0]['id'])) if tgt else None
      return '$%s.%s' % (x['colId'], tc or 'id')
    form = 8 if form == 34 else 21     # no such column yet: make one (bare lookupOne result)
    if oc1 is not None and c1 is not None:
      return '%s.lookupOne(%s=$%s)' % (oid, oc1, c1)
  if c1 is None or form == 0:
    return ['1', '"x"', 'None', '2.5', '[1, 2]', 'rec.id', '$id * 2'][a % 7]
  if form == 1: return '$%s' % c1
  if form == 2: return '$%s * 2 + 1' % c1
  if form == 3: return '"%%s|%%s" %% ($%s, $%s)' % (c1, c2)
  if form == 4: return 'rec.%s' % c1
  if form == 5:
    if refcols:
      r = refcols[a % len(refcols)]
      tgt = [t for t in tables if t['tableId'] == r['type'].split(':', 1)[1]]
      tc = col(c, _cols(doc, tgt[0]['id'])) if tgt else None
      return '$%s.%s' % (r['colId'], tc or 'id')
    return '$%s' % c1
  if form == 6:
    if rlcols:
      r = rlcols[a % len(rlcols)]
      tgt = [t for t in tables if t['tableId'] == r['type'].split(':', 1)[1]]
      tc = col(c, _cols(doc, tgt[0]['id'])) if tgt else None
      return ['list($%s.%s)', 'len($%s.%s)', 'SUM($%s.%s)'][c % 3] % (r['colId'], tc or 'id')
    return 'str($%s)' % c1
  if oc1 is None:
    return '$%s' % c1
  if form == 7: return 'len(%s.lookupRecords(%s=$%s))' % (oid, oc1, c1)
  if form == 8: return '%s.lookupOne(%s=$%s).%s' % (oid, oc1, c1, oc2)
  if form == 9: return '[r.%s for r in %s.lookupRecords(%s=$%s, order_by="%s")]' % (oc2, oid, oc1, c1, os1)
  if form == 10: return ['len(%s.all)' % oid, 'SUM(r.%s for r in %s.all)' % (oc1, oid),
                         '[r.id for r in %s.all]' % oid][c % 3]
  if form == 11: return '%s.lookupRecords(%s=CONTAINS($%s))' % (oid, oc1, c1)
  if form == 12: return 'PREVIOUS(rec, order_by="%s")' % s1
  if form == 13: return 'RANK(rec, order_by="%s", group_by="%s")' % (s1, c2)
  if form == 14: return 'NEXT(rec, order_by=("%s", "-%s")).id' % (s1, s2)
  if form == 15: return '%s.lookupRecords(%s=$%s, order_by="-%s").find.%s($%s)' % (
    oid, oc1, c1, os1, ['le', 'lt', 'ge', 'gt', 'eq'][c % 5], s1)
  if form == 16: return '$%s if $%s else "n"' % (c1, c2)
  if form == 17: return '$%s == $%s' % (c1, c2)
  if form == 18:
    if refcols:
      r = refcols[a % len(refcols)]
      tgt = [t for t in tables if t['tableId'] == r['type'].split(':', 1)[1]]
      if tgt:
        trefs = [x for x in _cols(doc, tgt[0]['id']) if x['type'].startswith('Ref:')]
        if trefs:
          r2 = trefs[c % len(trefs)]
          return '$%s.%s.id' % (r['colId'], r2['colId'])
      return '$%s.id' % r['colId']
    return 'len(str($%s))' % c1
  if form == 19: return '%s.lookupRecords(%s=$%s, %s=$%s)' % (oid, oc1, c1, oc2, c2) if oc1 != oc2 else \
                        '%s.lookupRecords(%s=$%s)' % (oid, oc1, c1)
  if form == 20: return '%s.lookupRecords(%s=$%s, sort_by="%s").%s' % (oid, oc1, c1, os1, oc2)
  if form == 21: return '%s.lookupOne(%s=$%s, order_by="-%s")' % (oid, oc1, c1, os1)
  if form == 22: return 'PREVIOUS(rec, group_by="%s", order_by="-%s").%s' % (c2, s1, c1)
  if form == 23: return 'len(%s.lookupRecords(%s=CONTAINS($%s, match_empty="")))' % (oid, oc1, c1)
  if form == 24: return '[r.%s for r in %s.all if r.%s == $%s]' % (oc2, oid, oc1, c1)
  if form == 25: return 'NEXT(rec, order_by=None)'
  return '$%s' % c1


# reference chains and lookups are what real documents use most: weight them up
FORM_WEIGHTS = {42: 2, 43: 1, 40: 3, 41: 3, 38: 3, 39: 2, 36: 3, 37: 2, 34: 4, 35: 2, 1: 2, 2: 2, 3: 2, 5: 6, 6: 4, 7: 4, 8: 4, 9: 3, 10: 2, 11: 2, 12: 2, 13: 2, 14: 2, 15: 2, 18: 3,
                19: 2, 20: 2, 21: 2}
_FORMS = []
for _f in range(N_FORMS):
  _FORMS.extend([_f] * FORM_WEIGHTS.get(_f, 1))


def fspec():
  return st.tuples(st.sampled_from(_FORMS), st.integers(0, 5), st.integers(0, 5), st.integers(0, 5)).map(list)


# ---------------------------------------------------------------------------
# op resolution

def _tables(doc, op_a, include_summary=True):
  ts = doc.tables_meta()
  if not include_summary:
    ts = [t for t in ts if not t['summarySourceTable']]
  if not ts:
    return None
  return ts[int(op_a) % len(ts)]


def _rows(doc, tid, start, count):
  rows = doc.row_ids(tid)
  if not rows:
    return []
  start = int(start) % len(rows)
  count = max(1, int(count) % 4)
  picked = []
  for i in range(count):
    r = rows[(start + i * 3) % len(rows)]
    if r not in picked:
      picked.append(r)
  return picked


def _mask_pick(cols, mask):
  mask = int(mask)
  out = [c for i, c in enumerate(cols) if (mask >> (i % 6)) & 1]
  return out


def resolve(doc, op):
  """Abstract op -> one concrete user action repr (list) or None when not applicable."""
  k = op.get('k')
  f = RESOLVERS.get(k)
  if f is None:
    return None
  try:
    return f(doc, op)
  except (IndexError, KeyError, ZeroDivisionError, TypeError, ValueError):
    return None


def _name(pool, i):
  return pool[int(i) % len(pool)]


def r_add(doc, op):
  t = _tables(doc, op['a'])
  if not t: return None
  cols = _cols(doc, t['id'], data_only=True)
  chosen = _mask_pick(cols, op['b'])
  n = max(1, int(op['n']) % 4)
  vals = op['vals'] or [[0, 1, 'a']]
  cv = {}
  j = 0
  for c in chosen:
    cv[c['colId']] = []
    for i in range(n):
      cv[c['colId']].append(cell_value(doc, c['type'], vals[j % len(vals)])); j += 1
  if n == 1 and int(op['b']) % 2:
    return ['AddRecord', t['tableId'], None, {c: v[0] for c, v in cv.items()}]
  return ['BulkAddRecord', t['tableId'], [None] * n, cv]


def r_update(doc, op):
  t = _tables(doc, op['a'])
  if not t: return None
  rows = _rows(doc, t['tableId'], op['c'], op['n'])
  if not rows: return None
  cols = _cols(doc, t['id'], data_only=True)
  chosen = _mask_pick(cols, op['b']) or cols[:1]
  if not chosen: return None
  vals = op['vals'] or [[0, 1, 'a']]
  cv = {}
  j = 0
  current = None
  for c in chosen:
    cv[c['colId']] = []
    for i in rows:
      spec = vals[j % len(vals)]
      v = cell_value(doc, c['type'], spec); j += 1
      if c['type'].split(':')[0] in ('RefList', 'ChoiceList') and int(spec[1]) % 2 == 1:
        # edit of the list the cell holds now (drop an item / reorder), as a user editing the cell would
        if current is None:
          current = doc.fetch_repr(t['tableId'])
        try:
          cur = current[3][c['colId']][current[2].index(i)]
        except Exception:
          cur = None
        if isinstance(cur, list) and cur[:1] == ['L'] and len(cur) > 2:
          items = cur[1:]
          v = ['L'] + (items[1:] if int(spec[0]) % 2 else list(reversed(items))[:-1])
      cv[c['colId']].append(v)
  if len(rows) == 1 and int(op['b']) % 2:
    return ['UpdateRecord', t['tableId'], rows[0], {c: v[0] for c, v in cv.items()}]
  return ['BulkUpdateRecord', t['tableId'], rows, cv]


def r_remove(doc, op):
  t = _tables(doc, op['a'])
  if not t: return None
  rows = _rows(doc, t['tableId'], op['c'], op['n'])
  if not rows: return None
  if len(rows) == 1:
    return ['RemoveRecord', t['tableId'], rows[0]]
  return ['BulkRemoveRecord', t['tableId'], rows]


def r_addtable(doc, op):
  cols = []
  for (ni, ti) in op['cols'][:4]:
    cols.append({'id': _name(COL_NAMES, ni), 'type': _name(DATA_TYPES, ti), 'isFormula': False})
  if int(op['a']) % 5 == 4:
    return ['AddEmptyTable', _name(TABLE_NAMES, op['name'])]
  return ['AddTable', _name(TABLE_NAMES, op['name']), cols]


def r_addcol(doc, op):
  t = _tables(doc, op['a'], include_summary=False)
  if not t: return None
  kind = ['AddColumn', 'AddVisibleColumn', 'AddHiddenColumn'][int(op['c']) % 3] if int(op['c']) % 4 else 'AddColumn'
  return [kind, t['tableId'], _name(COL_NAMES, op['name']), {'type': _name(DATA_TYPES, op['t']), 'isFormula': False}]


def r_addfcol(doc, op):
  t = _tables(doc, op['a'])
  if not t: return None
  return ['AddColumn', t['tableId'], _name(COL_NAMES, op['name']),
          {'type': _name(FORMULA_TYPES, op['t']), 'isFormula': True,
           'formula': formula_text(doc, t['id'], op['f'])}]


def r_addref(doc, op):
  t = _tables(doc, op['a'], include_summary=False)
  # now and then the target is a summary table (a reference to a group)
  tgt = _tables(doc, op['b'], include_summary=(int(op['c']) % 3 == 2))
  if not t or not tgt: return None
  typ = ('RefList:' if int(op['c']) % 2 else 'Ref:') + tgt['tableId']
  return ['AddColumn', t['tableId'], _name(COL_NAMES, op['name']), {'type': typ, 'isFormula': False}]


def _pick_col(doc, op, **kw):
  # Column-level schema operations target ordinary tables: a summary table's own columns (group-by copies,
  # `group`, `count`) are managed by the engine and the client only offers formula columns there.
  t = _tables(doc, op['a'], include_summary=False)
  if not t: return None, None
  cols = _cols(doc, t['id'], **kw)
  if not cols: return t, None
  return t, cols[int(op['b']) % len(cols)]


def r_rmcol(doc, op):
  t, c = _pick_col(doc, op)
  if not c: return None
  return ['RemoveColumn', t['tableId'], c['colId']]


def r_rencol(doc, op):
  t, c = _pick_col(doc, op)
  if not c: return None
  return ['RenameColumn', t['tableId'], c['colId'], _name(COL_NAMES, op['name']) or 'Z z']


def r_modtype(doc, op):
  t, c = _pick_col(doc, op)
  if not c: return None
  types = DATA_TYPES + ['Ref:' + x['tableId'] for x in doc.tables_meta() if not x['summarySourceTable']][:3]
  typ = types[int(op['t']) % len(types)]
  if int(op['c']) % 3 == 0 and typ.startswith('Ref:'):
    typ = 'RefList:' + typ[4:]
  if typ.split(':')[0] not in GROUPABLE and any(x['summarySourceCol'] == c['id'] for x in doc.columns_meta()):
    typ = 'Text'     # a group-by column keeps a concrete type (see _groupable)
  if c['isFormula'] and typ.startswith('Ref'):
    typ = 'Text'     # a formula column becomes a reference column only when its formula yields records
  return ['ModifyColumn', t['tableId'], c['colId'], {'type': typ}]


def r_modformula(doc, op):
  t = _tables(doc, op['a'])
  if not t: return None
  cols = _cols(doc, t['id'], formula_only=True) or _cols(doc, t['id'])
  if t['summarySourceTable']:
    cols = [c for c in cols if c['isFormula'] and c['colId'] not in ('group', 'count') and not c['summarySourceCol']]
  if not cols: return None
  c = cols[int(op['b']) % len(cols)]
  return ['ModifyColumn', t['tableId'], c['colId'], {'formula': formula_text(doc, t['id'], op['f'], self_col=c['colId'], max_ref=c['id'])}]


def r_toggle(doc, op):
  t, c = _pick_col(doc, op)
  if not c: return None
  if not c['isFormula'] and c['type'].startswith('Ref'):
    return None     # a reference column becomes a formula column only with a formula that yields records
  if c['isFormula']:
    return ['ModifyColumn', t['tableId'], c['colId'], {'isFormula': False}]
  return ['ModifyColumn', t['tableId'], c['colId'],
          {'isFormula': True, 'formula': formula_text(doc, t['id'], op['f'], self_col=c['colId'], max_ref=c['id'])}]


def r_retoggle(doc, op):
  """One ModifyColumn that both toggles formula/data and changes the type (the client's column-type dialog can
  do both at once): the same cells then get a conversion delta and a calculation delta in one bundle."""
  t, c = _pick_col(doc, op)
  if not c: return None
  typ = DATA_TYPES[int(op['t']) % len(DATA_TYPES)]
  if any(x['summarySourceCol'] == c['id'] for x in doc.columns_meta()):
    return None      # not on a group-by column: the listed conversion finding would re-key the summary table
  if c['isFormula']:
    return ['ModifyColumn', t['tableId'], c['colId'], {'isFormula': False, 'type': typ}]
  return ['ModifyColumn', t['tableId'], c['colId'],
          {'isFormula': True, 'type': typ,
           'formula': formula_text(doc, t['id'], op['f'], self_col=c['colId'], max_ref=c['id'])}]


def r_rmtable(doc, op):
  t = _tables(doc, op['a'], include_summary=False)
  if not t: return None
  return ['RemoveTable', t['tableId']]


def r_rentable(doc, op):
  t = _tables(doc, op['a'], include_summary=int(op.get('c', 0)) % 4 == 0)
  if not t: return None
  return ['RenameTable', t['tableId'], _name(TABLE_NAMES, op['name']) or 'Zz']


def r_duptable(doc, op):
  t = _tables(doc, op['a'], include_summary=False)
  if not t: return None
  return ['DuplicateTable', t['tableId'], _name(TABLE_NAMES, op['name']) or 'Dup', bool(int(op['c']) % 2)]


GROUPABLE = ('Text', 'Int', 'Numeric', 'Bool', 'Choice', 'Date', 'DateTime', 'Ref', 'ChoiceList', 'RefList')

def _groupable(cols, op):
  # group-by columns of a concrete type only; `any_groupby` re-admits Any-typed columns (known-finding witnesses)
  if op.get('any_groupby'):
    return cols
  return [c for c in cols if c['type'].split(':')[0] in GROUPABLE]


def r_summary(doc, op):
  t = _tables(doc, op['a'], include_summary=False)
  if not t: return None
  cols = _groupable(_cols(doc, t['id']), op)
  chosen = _mask_pick(cols, op['b'])[:3]
  views = doc.meta('_grist_Views')
  view = views[int(op['c']) % len(views)]['id'] if views and int(op['c']) % 2 else 0
  return ['CreateViewSection', t['id'], view, 'record', [c['id'] for c in chosen], None]


def _summary_sections(doc):
  stabs = set(t['id'] for t in doc.tables_meta() if t['summarySourceTable'])
  return [s for s in doc.meta('_grist_Views_section') if s['tableRef'] in stabs and s['parentId']]


def r_summaryupd(doc, op):
  secs = _summary_sections(doc)
  if not secs: return None
  s = secs[int(op['a']) % len(secs)]
  tmap = {t['id']: t for t in doc.tables_meta()}
  src = tmap[s['tableRef']]['summarySourceTable']
  cols = _groupable(_cols(doc, src), op)
  chosen = _mask_pick(cols, op['b'])[:3]
  return ['UpdateSummaryViewSection', s['id'], [c['id'] for c in chosen]]


def r_detach(doc, op):
  secs = _summary_sections(doc)
  if not secs: return None
  return ['DetachSummaryViewSection', secs[int(op['a']) % len(secs)]['id']]


def r_addview(doc, op):
  t = _tables(doc, op['a'], include_summary=False)
  if not t: return None
  return ['AddView', t['tableId'], 'raw_data', 'View %d' % (int(op['b']) % 3)]


def r_addsection(doc, op):
  t = _tables(doc, op['a'], include_summary=False)
  if not t: return None
  views = doc.meta('_grist_Views')
  view = views[int(op['c']) % len(views)]['id'] if views and int(op['c']) % 3 else 0
  return ['CreateViewSection', t['id'], view, ['record', 'detail', 'chart'][int(op['b']) % 3], None, None]


def r_rmsection(doc, op):
  secs = doc.meta('_grist_Views_section')
  if int(op.get('c', 0)) % 4:
    secs = [s for s in secs if s['parentId']]
  if not secs: return None
  if int(op.get('b', 0)) % 2:
    return ['RemoveViewSection', secs[-1]['id']]       # the most recently created widget
  return ['RemoveViewSection', secs[int(op['a']) % len(secs)]['id']]


def r_rmview(doc, op):
  views = doc.meta('_grist_Views')
  if not views: return None
  return ['RemoveView', views[int(op['a']) % len(views)]['id']]


def r_reverse(doc, op):
  cands = [c for c in doc.columns_meta()
           if (c['type'].startswith('Ref:') or c['type'].startswith('RefList:')) and not c['isFormula']
           and not is_hidden_col(c['colId'])]
  if not cands: return None
  c = cands[int(op['a']) % len(cands)]
  tmap = {t['id']: t for t in doc.tables_meta()}
  return ['AddReverseColumn', tmap[c['parentId']]['tableId'], c['colId']]


def r_meta_col(doc, op):
  t, c = _pick_col(doc, op)
  if not c: return None
  which = int(op['c']) % 7
  if which == 0:
    vals = {'colId': _name(COL_NAMES, op['name']) or 'Q'}
  elif which == 1:
    vals = {'label': _name(COL_NAMES, op['name']) or 'L l'}
  elif which == 2:
    vals = {'type': _name(DATA_TYPES, op['t'])}
  elif which == 3:
    vals = {'formula': formula_text(doc, t['id'], op['f'], self_col=c['colId'], max_ref=c['id'])}
  elif which == 4:
    vals = {'untieColIdFromLabel': bool(int(op['t']) % 2)}
  elif which == 5:
    vals = {'widgetOptions': ['', '{"alignment":"left"}', '{"choices":["a","b"]}'][int(op['t']) % 3]}
  else:
    vals = {'label': _name(COL_NAMES, op['name']) or 'M', 'colId': _name(COL_NAMES, int(op['name']) + 1) or 'M2'}
  return ['UpdateRecord', '_grist_Tables_column', c['id'], vals]


def r_meta_table(doc, op):
  t = _tables(doc, op['a'], include_summary=False)
  if not t: return None
  return ['UpdateRecord', '_grist_Tables', t['id'], {'tableId': _name(TABLE_NAMES, op['name']) or 'Mm'}]


def r_meta_rmcol(doc, op):
  t, c = _pick_col(doc, op)
  if not c: return None
  return ['RemoveRecord', '_grist_Tables_column', c['id']]


def r_meta_rmtable(doc, op):
  t = _tables(doc, op['a'], include_summary=False)
  if not t: return None
  return ['RemoveRecord', '_grist_Tables', t['id']]


def r_meta_rmfield(doc, op):
  fields = doc.meta('_grist_Views_section_field')
  if not fields: return None
  return ['RemoveRecord', '_grist_Views_section_field', fields[int(op['a']) % len(fields)]['id']]


def r_rawtitle(doc, op):
  t = _tables(doc, op['a'], include_summary=False)
  if not t or not t['rawViewSectionRef']: return None
  return ['UpdateRecord', '_grist_Views_section', t['rawViewSectionRef'],
          {'title': _name(TABLE_NAMES, op['name']) or ''}]


def r_sortspec(doc, op):
  """Sort every view section of one table by some of its columns (as the client's 'save sort' does per section)."""
  t = _tables(doc, op['a'], include_summary=False)
  if not t: return None
  cols = _mask_pick(_cols(doc, t['id']), op['b'])[:3]
  secs = [x['id'] for x in doc.meta('_grist_Views_section')
          if x['tableRef'] == t['id'] and x['id'] != t.get('recordCardViewSectionRef')]   # (record cards are fixed)
  if not secs or not cols: return None
  import json as _json
  specs = []
  for i, sid in enumerate(secs):
    refs = [(-c['id'] if (int(op['c']) + i + j) % 3 == 0 else c['id']) for j, c in enumerate(cols)]
    specs.append(_json.dumps(refs[i % 2:] or refs))
  return ['BulkUpdateRecord', '_grist_Views_section', secs, {'sortColRefs': specs}]


def r_filter(doc, op):
  """Save a column filter on a view section (a _grist_Filters record), as the client's 'save filter' does."""
  fields = [f for f in doc.meta('_grist_Views_section_field') if f['parentId'] and f['colRef']]
  if not fields: return None
  if int(op['c']) % 2:
    last = max(f['parentId'] for f in fields)          # a column of the most recently created widget
    fields = [f for f in fields if f['parentId'] == last]
  f = fields[int(op['a']) % len(fields)]
  existing = [x for x in doc.meta('_grist_Filters') if x['viewSectionRef'] == f['parentId'] and x['colRef'] == f['colRef']]
  spec = ['{"excluded": [1]}', '{"included": ["a", 2]}', '{"excluded": []}'][int(op['b']) % 3]
  if existing:
    return ['UpdateRecord', '_grist_Filters', existing[0]['id'], {'filter': spec, 'pinned': bool(int(op['c']) % 2)}]
  return ['AddRecord', '_grist_Filters', None, {'viewSectionRef': f['parentId'], 'colRef': f['colRef'], 'filter': spec,
                                                'pinned': bool(int(op['c']) % 2)}]


def r_displaycol(doc, op):
  cands = [c for c in doc.columns_meta() if c['type'].startswith('Ref') and not is_hidden_col(c['colId'])]
  if not cands: return None
  c = cands[int(op['a']) % len(cands)]
  tmap = {t['id']: t for t in doc.tables_meta()}
  tgt = [t for t in doc.tables_meta() if t['tableId'] == c['type'].split(':', 1)[1]]
  if not tgt: return None
  tcols = _cols(doc, tgt[0]['id'])
  if not tcols or int(op['b']) % 5 == 4:
    return ['SetDisplayFormula', tmap[c['parentId']]['tableId'], None, c['id'], '']
  tc = tcols[int(op['b']) % len(tcols)]
  return ['SetDisplayFormula', tmap[c['parentId']]['tableId'], None, c['id'], '$%s.%s' % (c['colId'], tc['colId'])]


def r_rule(doc, op):
  t, c = _pick_col(doc, op)
  if not c: return None
  return ['AddEmptyRule', t['tableId'], 0, c['id']]


def r_trigger(doc, op):
  t = _tables(doc, op['a'], include_summary=False)
  if not t: return None
  cols = _cols(doc, t['id'], data_only=True)
  if not cols: return None
  c = cols[int(op['b']) % len(cols)]
  allc = _cols(doc, t['id'])
  deps = [x['id'] for x in _mask_pick(allc, op['t'])]
  when = int(op['c']) % 3
  trig = [x for x in cols if x['formula']]
  if trig and int(op['c']) % 2:
    # settings-only change of an existing trigger column (what the column's side panel sends): drop or shrink its
    # dependencies, or switch when it recalculates
    x = trig[int(op['b']) % len(trig)]
    upd = [{'recalcDeps': None}, {'recalcWhen': 1}, {'recalcDeps': (['L'] + deps[:1]) if deps else None},
           {'recalcWhen': 2}, {'recalcWhen': 0, 'recalcDeps': (['L'] + deps) if deps else None}][int(op['a']) % 5]
    return ['UpdateRecord', '_grist_Tables_column', x['id'], upd]
  f = list(op['f'])
  if int(op['a']) % 3 == 0:
    f = [42 + int(op['b']) % 2] + f[1:]      # a trigger formula that swallows exceptions (IFERROR)
  return ['ModifyColumn', t['tableId'], c['colId'],
          {'formula': formula_text(doc, t['id'], f, self_col=c['colId'], max_ref=c['id']), 'recalcWhen': when,
           'recalcDeps': (['L'] + deps) if deps else None}]


def r_choices(doc, op):
  cands = [c for c in doc.columns_meta() if c['type'] in ('Choice', 'ChoiceList') and not c['isFormula']]
  if not cands: return None
  c = cands[int(op['a']) % len(cands)]
  tmap = {t['id']: t for t in doc.tables_meta()}
  x, y = CHOICES[int(op['b']) % 4], CHOICES[int(op['c']) % 4]
  ren = {x: y, y: x} if int(op['t']) % 2 and x != y else {x: y + 'z'}
  return ['RenameChoices', tmap[c['parentId']]['tableId'], c['colId'], ren]


def r_copyfrom(doc, op):
  t = _tables(doc, op['a'], include_summary=False)
  if not t: return None
  cols = _cols(doc, t['id'])
  if len(cols) < 2: return None
  src = cols[int(op['b']) % len(cols)]
  dst = cols[int(op['c']) % len(cols)]
  if src['id'] == dst['id']: return None
  return ['CopyFromColumn', t['tableId'], src['colId'], dst['colId'], None]


def r_replace(doc, op):
  t = _tables(doc, op['a'], include_summary=False)
  if not t: return None
  cols = _cols(doc, t['id'], data_only=True)
  n = int(op['n']) % 4
  vals = op['vals'] or [[0, 1, 'a']]
  cv = {}
  j = 0
  for c in _mask_pick(cols, op['b']):
    cv[c['colId']] = []
    for i in range(n):
      cv[c['colId']].append(cell_value(doc, c['type'], vals[j % len(vals)])); j += 1
  return ['ReplaceTableData', t['tableId'], list(range(1, n + 1)), cv]


def r_rmref(doc, op):
  """Remove a column that a formula of the same table mentions (leaving a dangling name behind)."""
  import re as _re
  t = _tables(doc, op['a'], include_summary=False)
  if not t: return None
  cols = _cols(doc, t['id'])
  used = []
  for c in cols:
    for f in cols:
      if f['id'] != c['id'] and f['formula'] and _re.search(r'(\$|rec\.)%s\b' % _re.escape(c['colId']), f['formula']):
        if c not in used:
          used.append(c)
  if not used: return None
  c = used[int(op['b']) % len(used)]
  return ['RemoveColumn', t['tableId'], c['colId']]


def r_revive(doc, op):
  """Give some column the name of a column that formulas of the document mention but that no longer exists
  (rename another column to it, or add it)."""
  import re as _re
  t = _tables(doc, op['a'], include_summary=False)
  if not t: return None
  cols = _cols(doc, t['id'])
  names = set(c['colId'] for c in cols)
  mentioned = []
  for c in doc.columns_meta():
    if not c['formula']:
      continue
    pats = []
    if c['parentId'] == t['id']:
      pats += [r'\$([A-Za-z_]\w*)', r'\brec\.([A-Za-z_]\w*)']
    # lookups / .all comprehensions into this table from anywhere
    pats += [r'\b%s\.lookup(?:Records|One)\(([A-Za-z_]\w*)=' % _re.escape(t['tableId'])]
    for pat in pats:
      for m in _re.finditer(pat, c['formula']):
        n = m.group(1)
        if n not in names and n not in mentioned and n != 'id':
          mentioned.append(n)
  mentioned = [n for n in mentioned if _re.match(r'^[A-Za-z][A-Za-z0-9_]*$', n) and len(n) <= 8]
  if not mentioned or not cols: return None
  name = mentioned[int(op['b']) % len(mentioned)]
  if int(op['c']) % 3 == 0:
    return ['AddColumn', t['tableId'], name, {'type': 'Int', 'isFormula': False}]
  src = cols[int(op['c']) % len(cols)]
  return ['RenameColumn', t['tableId'], src['colId'], name]


def r_bad(doc, op):
  """Deliberately invalid requests (natural failures)."""
  t = _tables(doc, op['a'])
  tid = t['tableId'] if t else 'Nope'
  which = int(op['b']) % 12
  cols = _cols(doc, t['id']) if t else []
  fcols = [c for c in cols if c['isFormula']]
  if which == 0: return ['AddRecord', 'NoSuchTable', None, {}]
  if which == 1: return ['UpdateRecord', tid, 99999, {}]
  if which == 2: return ['AddRecord', tid, None, {'no_such_col': 1}]
  if which == 3 and fcols: return ['AddRecord', tid, None, {fcols[0]['colId']: 5}]
  if which == 4 and cols: return ['AddColumn', tid, cols[0]['colId'], {'type': 'NoSuchType', 'isFormula': False}]
  if which == 5 and cols: return ['ModifyColumn', tid, cols[int(op['c']) % len(cols)]['colId'], {'type': 'Bogus'}]
  if which == 6: return ['RemoveColumn', tid, 'no_such_col']
  if which == 7: return ['RenameTable', tid, '_grist_Tables']
  if which == 8: return ['RemoveRecord', tid, 424242]
  if which == 9: return ['BulkAddRecord', tid, [None, None], {'no_such_col': [1, 2]}]
  if which == 10 and cols: return ['RenameColumn', tid, cols[0]['colId'], 'id']
  if which == 11: return ['RemoveTable', 'NoSuchTable']
  return ['UpdateRecord', tid, -5, {}]


RESOLVERS = {
  'add': r_add, 'update': r_update, 'remove': r_remove, 'replace': r_replace,
  'addtable': r_addtable, 'addcol': r_addcol, 'addfcol': r_addfcol, 'addref': r_addref,
  'rmcol': r_rmcol, 'rencol': r_rencol, 'modtype': r_modtype, 'modformula': r_modformula,
  'toggle': r_toggle, 'rmtable': r_rmtable, 'rentable': r_rentable, 'duptable': r_duptable,
  'summary': r_summary, 'summaryupd': r_summaryupd, 'detach': r_detach,
  'addview': r_addview, 'addsection': r_addsection, 'rmsection': r_rmsection, 'rmview': r_rmview,
  'reverse': r_reverse, 'meta_col': r_meta_col, 'meta_table': r_meta_table, 'meta_rmcol': r_meta_rmcol,
  'meta_rmtable': r_meta_rmtable, 'meta_rmfield': r_meta_rmfield, 'rawtitle': r_rawtitle,
  'displaycol': r_displaycol, 'rule': r_rule, 'trigger': r_trigger, 'choices': r_choices,
  'copyfrom': r_copyfrom, 'bad': r_bad, 'revive': r_revive, 'rmref': r_rmref, 'sortspec': r_sortspec, 'retoggle': r_retoggle, 'filter': r_filter,
}

SCHEMA_KINDS = set(RESOLVERS) - {'add', 'update', 'remove', 'replace', 'bad'}

# ---------------------------------------------------------------------------
# strategies

_sel = st.integers(0, 7)
_mask = st.integers(0, 63)


def op_strategy(kind):
  base = {'k': st.just(kind), 'a': _sel}
  if kind in ('add', 'update', 'replace'):
    base.update(b=_mask, c=_sel, n=st.integers(0, 3), vals=st.lists(valspec(), min_size=1, max_size=5))
  elif kind == 'remove':
    base.update(c=_sel, n=st.integers(0, 3))
  elif kind == 'addtable':
    base.update(name=st.integers(0, len(TABLE_NAMES) - 1),
                cols=st.lists(st.tuples(st.integers(0, len(COL_NAMES) - 1), st.integers(0, len(DATA_TYPES) - 1)).map(list),
                              min_size=1, max_size=4))
  elif kind in ('addcol',):
    base.update(name=st.integers(0, len(COL_NAMES) - 1), t=st.integers(0, len(DATA_TYPES) - 1), c=_sel)
  elif kind in ('addfcol',):
    base.update(name=st.integers(0, len(COL_NAMES) - 1), t=st.integers(0, len(FORMULA_TYPES) - 1), f=fspec())
  elif kind == 'addref':
    base.update(name=st.integers(0, len(COL_NAMES) - 1), b=_sel, c=_sel)
  elif kind in ('rmcol', 'meta_rmcol', 'rule'):
    base.update(b=_sel)
  elif kind == 'rencol':
    base.update(b=_sel, name=st.integers(0, len(COL_NAMES) - 1))
  elif kind == 'modtype':
    base.update(b=_sel, t=st.integers(0, 11), c=_sel)
  elif kind in ('modformula', 'toggle'):
    base.update(b=_sel, f=fspec())
  elif kind == 'retoggle':
    base.update(b=_sel, t=st.integers(0, 11), f=fspec())
  elif kind in ('rentable', 'duptable', 'meta_table', 'rawtitle'):
    base.update(name=st.integers(0, len(TABLE_NAMES) - 1), c=_sel)
  elif kind in ('summary', 'summaryupd', 'sortspec'):
    base.update(b=_mask, c=_sel)
  elif kind in ('addview', 'addsection', 'displaycol', 'rmsection', 'filter'):
    base.update(b=_sel, c=_sel)
  elif kind == 'meta_col':
    base.update(b=_sel, c=_sel, t=_sel, name=st.integers(0, len(COL_NAMES) - 1), f=fspec())
  elif kind == 'trigger':
    base.update(b=_sel, c=_sel, t=st.one_of(st.just(0), _mask), f=fspec())
  elif kind in ('choices',):
    base.update(b=_sel, c=_sel, t=_sel)
  elif kind in ('copyfrom', 'bad', 'revive', 'rmref'):
    base.update(b=st.integers(0, 11), c=_sel)
  return st.fixed_dictionaries(base)


PROFILES = {
  # kind -> weight
  'general': {
    'add': 10, 'update': 10, 'remove': 4, 'replace': 1,
    'addtable': 4, 'addcol': 5, 'addfcol': 8, 'addref': 4, 'rmcol': 3, 'rencol': 4, 'modtype': 4,
    'modformula': 4, 'toggle': 2, 'rmtable': 1, 'rentable': 3, 'duptable': 1,
    'summary': 4, 'summaryupd': 2, 'detach': 1, 'addview': 1, 'addsection': 1, 'rmsection': 1, 'rmview': 1,
    'reverse': 2, 'meta_col': 4, 'meta_table': 1, 'meta_rmcol': 1, 'meta_rmtable': 1, 'meta_rmfield': 1,
    'rawtitle': 1, 'displaycol': 1, 'rule': 1, 'trigger': 2, 'choices': 1, 'copyfrom': 1, 'bad': 2, 'sortspec': 2, 'retoggle': 2, 'filter': 2,
  },
  'formula': {
    'add': 12, 'update': 14, 'remove': 5,
    'addtable': 3, 'addcol': 4, 'addfcol': 12, 'addref': 5, 'rmcol': 4, 'rencol': 3, 'modtype': 3,
    'modformula': 6, 'toggle': 2, 'rmtable': 1, 'rentable': 1, 'summary': 4, 'summaryupd': 2, 'revive': 11, 'rmref': 8,
    'reverse': 1, 'meta_col': 2, 'displaycol': 1, 'choices': 1, 'trigger': 3, 'replace': 1,
  },
  'schema': {
    'add': 5, 'update': 4, 'remove': 2,
    'addtable': 4, 'addcol': 4, 'addfcol': 5, 'addref': 4, 'rmcol': 4, 'rencol': 4, 'modtype': 4,
    'modformula': 2, 'toggle': 3, 'rmtable': 2, 'rentable': 3, 'duptable': 1,
    'summary': 4, 'summaryupd': 3, 'detach': 2, 'addview': 2, 'addsection': 2, 'rmsection': 2, 'rmview': 2,
    'reverse': 3, 'meta_col': 6, 'meta_table': 2, 'meta_rmcol': 3, 'meta_rmtable': 2, 'meta_rmfield': 2,
    'rawtitle': 2, 'displaycol': 2, 'rule': 2, 'trigger': 2, 'choices': 1, 'copyfrom': 1, 'bad': 3, 'sortspec': 3, 'retoggle': 3, 'filter': 3,
  },
  # type changes of columns that formulas, summary tables and two-way references depend on
  'typechange': {
    'add': 8, 'update': 6, 'remove': 2, 'addcol': 3, 'addfcol': 8, 'addref': 3, 'modtype': 14, 'modformula': 2,
    'toggle': 3, 'summary': 4, 'reverse': 2, 'meta_col': 3, 'rmcol': 1, 'copyfrom': 2, 'retoggle': 5,
  },
  # several schema steps in ONE bundle: removal/conversion followed by renames (undo must use the right names)
  'combo': {
    'rmcol': 6, 'rencol': 8, 'rentable': 8, 'modtype': 5, 'toggle': 3, 'rmtable': 2, 'meta_col': 4, 'meta_table': 3,
    'addfcol': 5, 'add': 4, 'update': 3, 'remove': 2, 'meta_rmcol': 2, 'addcol': 2, 'rawtitle': 2, 'retoggle': 3,
  },
  # data edits under reference-following formulas
  'refdata': {'revive': 1, 'update': 22, 'add': 6, 'remove': 5, 'addfcol': 9, 'addref': 5, 'modformula': 2, 'reverse': 1, 'modtype': 1},
  # trigger-formula (data) columns under record churn: add/remove/replace in the same bundle
  'triggers': {'trigger': 10, 'add': 12, 'remove': 10, 'replace': 4, 'update': 8, 'addcol': 2, 'addfcol': 3, 'modtype': 2,
               'rmcol': 1, 'rencol': 1},
  # same-table formula chains across rows (evaluation-order sensitive)
  'rowchains': {'addfcol': 14, 'modformula': 8, 'add': 8, 'update': 10, 'remove': 4, 'toggle': 1, 'addcol': 2},
  # widgets: summary and plain sections with saved sort and filters, created and removed again
  'widgets': {'summary': 10, 'addsection': 5, 'addview': 3, 'filter': 10, 'sortspec': 5, 'rmsection': 8, 'rmview': 4,
              'summaryupd': 4, 'detach': 2, 'add': 5, 'update': 5, 'remove': 2, 'rmcol': 4, 'rencol': 3, 'modtype': 2,
              'addcol': 2, 'addfcol': 2, 'rentable': 1, 'rmtable': 1, 'displaycol': 2, 'rule': 2},
  'records': {
    'add': 12, 'update': 12, 'remove': 6, 'replace': 1, 'addcol': 1, 'addfcol': 2, 'bad': 1,
  },
}


def any_op(profile='general'):
  w = PROFILES[profile]
  kinds = []
  for k in sorted(w):
    kinds.extend([k] * w[k])
  return st.sampled_from(kinds).flatmap(op_strategy)


RECORD_KINDS = ('add', 'update', 'remove', 'replace', 'bad')


def follow_op(profile):
  w = PROFILES[profile]
  kinds = []
  for k in RECORD_KINDS:
    kinds.extend([k] * max(1, w.get(k, 1)))
  return st.sampled_from(kinds).flatmap(op_strategy)


def bundle(profile='general', max_ops=2):
  """A bundle = one operation of any kind, optionally followed by record operations (or a deliberately invalid
  request). Selectors of every op are resolved against the document as it is BEFORE the bundle, so a second
  schema operation would often name things the first one just replaced - not something a client sends.
  The 'combo' profile (several schema steps in one bundle, as in test_undo_rename) is the exception."""
  if profile == 'combo' or max_ops <= 1:
    return st.lists(any_op(profile), min_size=1, max_size=max_ops)
  return st.tuples(any_op(profile), st.lists(follow_op(profile), min_size=0, max_size=max_ops - 1)).map(
    lambda t: [t[0]] + t[1])


# A deterministic, generated "seed document" prefix so histories start from something interesting.
def prelude(focus=None):
  """Bundles that build two tables with typed data columns, a ref, rows and formulas.
  focus='refs': Alpha always references Beta and carries reference-following / lookup formulas."""
  if focus == 'refs':
    ref_forms = st.tuples(st.sampled_from([5, 5, 5, 6, 6, 18, 7, 8, 9, 11]), st.integers(0, 5), st.integers(0, 5),
                          st.integers(0, 5)).map(list)
    return st.fixed_dictionaries({
      'types': st.lists(st.integers(0, len(DATA_TYPES) - 1), min_size=1, max_size=3),
      'types2': st.lists(st.integers(0, len(DATA_TYPES) - 1), min_size=1, max_size=3),
      'ref': st.sampled_from([1, 1, 2]),
      'rows': st.lists(st.lists(valspec(), min_size=1, max_size=4), min_size=2, max_size=5),
      'rows2': st.lists(st.lists(valspec(), min_size=1, max_size=4), min_size=1, max_size=3),
      'formulas': st.lists(st.tuples(st.just(0), ref_forms).map(list), min_size=1, max_size=3),
    })
  if focus == 'rowchains':
    # Alpha references itself; F1 follows that reference into F0 and F0 is then re-pointed at ANY column for
    # one row only: two formula columns that depend on each other across DIFFERENT rows (no cell-level cycle
    # unless the data says so), so that the order of evaluation really matters.
    small = st.integers(0, 5)
    return st.fixed_dictionaries({
      'types': st.lists(st.sampled_from([DATA_TYPES.index('Int'), DATA_TYPES.index('Numeric'), DATA_TYPES.index('Text')]),
                        min_size=1, max_size=3),
      'types2': st.lists(st.integers(0, len(DATA_TYPES) - 1), min_size=0, max_size=2),
      'ref': st.just(4),
      'rows': st.lists(st.lists(valspec(), min_size=1, max_size=4), min_size=2, max_size=4),
      'rows2': st.lists(st.lists(valspec(), min_size=1, max_size=4), min_size=0, max_size=2),
      'formulas': st.tuples(st.tuples(st.just(0), fspec()).map(list),
                            st.tuples(st.just(0), st.tuples(st.just(41), small, small, small).map(list)).map(list)).map(list),
      'chain': st.tuples(st.just(40), small, small, small).map(list),
      'peers': st.lists(st.integers(0, 4), min_size=2, max_size=4),
    })
  if focus == 'triggers':
    # a data column of Alpha gets a trigger formula over a formula column (half of the time one that swallows
    # exceptions), so that record churn recalculates data cells that depend on cells being recalculated
    return st.fixed_dictionaries({
      'types': st.lists(st.integers(0, len(DATA_TYPES) - 1), min_size=2, max_size=4),
      'types2': st.lists(st.integers(0, len(DATA_TYPES) - 1), min_size=1, max_size=2),
      'ref': st.sampled_from([0, 1, 3]),
      'rows': st.lists(st.lists(valspec(), min_size=1, max_size=4), min_size=0, max_size=3),
      'rows2': st.lists(st.lists(valspec(), min_size=1, max_size=4), min_size=0, max_size=2),
      'formulas': st.lists(st.tuples(st.just(0), fspec()).map(list), min_size=1, max_size=2),
      'trig': st.tuples(st.integers(0, 7), st.integers(0, 2), st.integers(0, 3), st.integers(0, 63)).map(list),
    })
  if focus == 'widgets':
    # a summary widget (own page) with a saved filter and sort on it, and a second plain widget: what the removal
    # of widgets / pages / columns has to clean up in more than one round
    return st.fixed_dictionaries({
      'types': st.lists(st.integers(0, len(DATA_TYPES) - 1), min_size=2, max_size=4),
      'types2': st.lists(st.integers(0, len(DATA_TYPES) - 1), min_size=1, max_size=3),
      'ref': st.sampled_from([0, 1, 3]),
      'rows': st.lists(st.lists(valspec(), min_size=1, max_size=4), min_size=1, max_size=4),
      'rows2': st.lists(st.lists(valspec(), min_size=1, max_size=4), min_size=0, max_size=3),
      'formulas': st.lists(st.tuples(st.integers(0, 1), fspec()).map(list), min_size=0, max_size=2),
      'widgets': st.tuples(st.integers(1, 15), st.integers(0, 7), st.integers(0, 7)).map(list),
    })
  return st.fixed_dictionaries({
    'types': st.lists(st.integers(0, len(DATA_TYPES) - 1), min_size=2, max_size=4),
    'types2': st.lists(st.integers(0, len(DATA_TYPES) - 1), min_size=1, max_size=3),
    'ref': st.sampled_from([0, 1, 1, 2, 3, 3, 4]),
    'rows': st.lists(st.lists(valspec(), min_size=1, max_size=4), min_size=0, max_size=5),
    'rows2': st.lists(st.lists(valspec(), min_size=1, max_size=4), min_size=0, max_size=4),
    'formulas': st.lists(st.tuples(st.integers(0, 1), fspec()).map(list), min_size=0, max_size=4),
  })


def run_prelude(doc, p):
  """Execute a prelude spec; returns nothing. Always uses valid names."""
  names = ['A', 'B', 'C', 'D']
  cols1 = [{'id': names[i], 'type': DATA_TYPES[int(t) % len(DATA_TYPES)], 'isFormula': False}
           for i, t in enumerate(p['types'][:4])]
  cols2 = [{'id': names[i], 'type': DATA_TYPES[int(t) % len(DATA_TYPES)], 'isFormula': False}
           for i, t in enumerate(p['types2'][:4])]
  doc.apply([['AddTable', 'Alpha', cols1]])
  doc.apply([['AddTable', 'Beta', cols2]])
  r = int(p['ref']) % 5
  if r == 4:
    doc.apply([['AddColumn', 'Alpha', 'R', {'type': 'Ref:Alpha', 'isFormula': False}]])     # self-reference
  elif r == 1:
    doc.apply([['AddColumn', 'Alpha', 'R', {'type': 'Ref:Beta', 'isFormula': False}]])
  elif r == 2:
    doc.apply([['AddColumn', 'Alpha', 'R', {'type': 'RefList:Beta', 'isFormula': False}]])
  elif r == 3:
    doc.apply([['AddColumn', 'Beta', 'R', {'type': 'Ref:Alpha', 'isFormula': False}]])
  for tid, rows in (('Beta', p['rows2']), ('Alpha', p['rows'])):
    tm = [t for t in doc.tables_meta() if t['tableId'] == tid]
    if not tm or not rows:
      continue
    cols = _cols(doc, tm[0]['id'], data_only=True)
    cv = {c['colId']: [] for c in cols}
    for row in rows:
      for j, c in enumerate(cols):
        cv[c['colId']].append(cell_value(doc, c['type'], row[j % len(row)]))
    doc.apply([['BulkAddRecord', tid, [None] * len(rows), cv]])
  for i, (which, fs) in enumerate(p['formulas'][:4]):
    tid = 'Alpha' if int(which) % 2 == 0 else 'Beta'
    tm = [t for t in doc.tables_meta() if t['tableId'] == tid]
    if not tm:
      continue
    doc.apply([['AddColumn', tid, 'F%d' % i, {'type': 'Any', 'isFormula': True,
                                               'formula': formula_text(doc, tm[0]['id'], fs)}]])
  if p.get('trig'):
    sel, when, variant, depmask = [int(x) for x in p['trig']]
    tm = [t for t in doc.tables_meta() if t['tableId'] == 'Alpha']
    if tm:
      dcols = _cols(doc, tm[0]['id'], data_only=True)
      fcols = [c for c in _cols(doc, tm[0]['id']) if c['isFormula']]
      pairs = [(c, f) for c in dcols for f in fcols if not formula_mentions(doc, tm[0]['id'], f['colId'], c['colId'])]
      if pairs:
        c, f = pairs[sel % len(pairs)]
        f = f['colId']
        text = ['IFERROR($%s, -1)' % f, '$%s' % f, 'IFERROR($%s, "e") if $id %% 2 else $%s' % (f, f),
                'str($%s)' % f][variant % 4]
        deps = [x['id'] for x in _mask_pick(_cols(doc, tm[0]['id']), depmask)]
        doc.apply([['ModifyColumn', 'Alpha', c['colId'], {'formula': text, 'recalcWhen': when % 3,
                                                          'recalcDeps': (['L'] + deps) if deps else None}]])
  if p.get('widgets'):
    mask, a, b = [int(x) for x in p['widgets']]
    for kind, opd in (('summary', {'k': 'summary', 'a': 0, 'b': mask, 'c': 0}),
                      ('filter', {'k': 'filter', 'a': a, 'b': b, 'c': 1}),
                      ('sortspec', {'k': 'sortspec', 'a': 0, 'b': mask, 'c': a}),
                      ('addsection', {'k': 'addsection', 'a': b, 'b': a, 'c': 1})):
      ua = RESOLVERS[kind](doc, opd)
      if ua:
        doc.apply([ua])
  if p.get('chain'):
    tm = [t for t in doc.tables_meta() if t['tableId'] == 'Alpha']
    if tm and any(c['colId'] == 'F0' for c in doc.columns(tm[0]['id'])):
      ch = [int(x) for x in p['chain']]
      if ch[1] % 3:
        # the canonical shape: F0[k] -> F1[k] -> F0[R[k]]
        dcols = _cols(doc, tm[0]['id'], data_only=True)
        alt = '$%s' % dcols[ch[2] % len(dcols)]['colId'] if dcols else '$id'
        doc.apply([['ModifyColumn', 'Alpha', 'F1', {'formula': '$R.F0 if $R else 0'}]])
        doc.apply([['ModifyColumn', 'Alpha', 'F0', {'formula': '$F1 if $id == %d else %s' % (1 + ch[3] % 2, alt)}]])
      else:
        doc.apply([['ModifyColumn', 'Alpha', 'F0', {'formula': formula_text(doc, tm[0]['id'], p['chain'], self_col='F0')}]])
      rows = doc.row_ids('Alpha')
      if rows and p.get('peers'):
        pool = [0] + rows
        doc.apply([['BulkUpdateRecord', 'Alpha', rows, {'R': [pool[int(x) % len(pool)] for x in (list(p['peers']) * 4)[:len(rows)]]}]])


def history(profile='general', min_bundles=1, max_bundles=12, max_ops=2, with_prelude=True, focus=None):
  d = {'bundles': st.lists(bundle(profile, max_ops), min_size=min_bundles, max_size=max_bundles)}
  if with_prelude:
    d['prelude'] = prelude(focus)
  return st.fixed_dictionaries(d)


def resolve_bundle(doc, ops):
  uas = []
  for op in ops:
    ua = resolve(doc, op)
    if ua is not None:
      uas.append(ua)
  return uas


def is_schema_action(ua):
  return ua[0] not in ('AddRecord', 'BulkAddRecord', 'UpdateRecord', 'BulkUpdateRecord', 'RemoveRecord',
                       'BulkRemoveRecord', 'ReplaceTableData', 'AddOrUpdateRecord', 'BulkAddOrUpdateRecord') \
      or (len(ua) > 1 and isinstance(ua[1], str) and ua[1].startswith('_grist_'))
