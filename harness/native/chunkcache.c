/* Harness-side performance workaround (no effect on semantics of the code under test).
 * CPython 3.11+/3.12 allocates its per-thread frame "data stack" in 16 KB chunks through the arena
 * allocator (mmap) and frees a chunk (munmap) as soon as the call depth drops below it. astroid's deep
 * recursive visitors make the depth oscillate around chunk boundaries ~10^4 times per engine case, and in
 * this VM one munmap costs ~1 ms (much more with 16 processes), so >50% of wall time went into munmap.
 * This arena allocator keeps freed 16 KB chunks on a small free list and hands them out again. */
#include <sys/mman.h>
#include <string.h>
#include <stddef.h>

typedef struct {
  void *ctx;
  void *(*alloc)(void *ctx, size_t size);
  void (*free)(void *ctx, void *ptr, size_t size);
} ArenaAllocator;

#define CHUNK 16384
#define NCACHE 512
static void *cache[NCACHE];
static int ncache = 0;

static void *a_alloc(void *ctx, size_t size) {
  void *p;
  (void)ctx;
  if (size == CHUNK && ncache > 0) {
    p = cache[--ncache];
    memset(p, 0, CHUNK);
    return p;
  }
  p = mmap(NULL, size, PROT_READ | PROT_WRITE, MAP_PRIVATE | MAP_ANONYMOUS, -1, 0);
  return p == MAP_FAILED ? NULL : p;
}

static void a_free(void *ctx, void *ptr, size_t size) {
  (void)ctx;
  if (size == CHUNK && ncache < NCACHE) {
    cache[ncache++] = ptr;
    return;
  }
  munmap(ptr, size);
}

static ArenaAllocator the_allocator = {NULL, a_alloc, a_free};

/* setter = address of PyObject_SetArenaAllocator */
void gv_install(void (*setter)(ArenaAllocator *)) {
  setter(&the_allocator);
}
