# Harness-side stand-in for the `friendly_traceback` package, which the pinned
# /venv lacks. Only `source_cache.cache.add` is provided (see DESIGN.md 2.1).
# `friendly_traceback.core` is deliberately absent so that
# friendly_errors.friendly_message falls back to returning "".
